//! Miri tier for C33: the real memory pool (execution/memory.rs, included by path, with its
//! own std atomics and orderings) driven by real threads under Miri's seeded scheduler,
//! with Miri's data-race detector and weak-memory emulation on. The workload comes from
//! argv[1] (a seed); Miri's scheduler seed comes from -Zmiri-many-seeds.
//!
//! Oracle at quiescent points (all threads joined at the end of a round):
//!   * usage equals the sum of the reservations still held,
//!   * in a round whose grants were all conditional (try_allocate), that sum is within the
//!     limit, and a refused try_allocate never changed the usage,
//!   * after every reservation is dropped the usage is zero (no underflow, no leak).
#![allow(dead_code)]

mod error {
    #[derive(Debug)]
    pub enum QueryError {
        Execution(String),
    }
    impl std::fmt::Display for QueryError {
        fn fmt(&self, f: &mut std::fmt::Formatter<'_>) -> std::fmt::Result {
            write!(f, "{self:?}")
        }
    }
    pub type Result<T> = std::result::Result<T, QueryError>;
}

#[path = "/repo/src/execution/memory.rs"]
mod memory;

use memory::{MemoryPool, MemoryReservation};
use std::sync::Arc;

struct Rng(u64);
impl Rng {
    fn next(&mut self) -> u64 {
        self.0 = self.0.wrapping_add(0x9e3779b97f4a7c15);
        let mut z = self.0;
        z = (z ^ (z >> 30)).wrapping_mul(0xbf58476d1ce4e5b9);
        z = (z ^ (z >> 27)).wrapping_mul(0x94d049bb133111eb);
        z ^ (z >> 31)
    }
    fn below(&mut self, n: u64) -> u64 {
        self.next() % n
    }
}

fn main() {
    let seed: u64 = std::env::args().nth(1).and_then(|s| s.parse().ok()).unwrap_or(1);
    let mut rng = Rng(seed);
    let nthreads = 2 + rng.below(2) as usize;
    let limit = match rng.below(4) {
        0 => 0usize,
        1 => 1 + rng.below(40) as usize,
        2 => 40 + rng.below(100) as usize,
        _ => 1000,
    };
    let conditional_only = rng.below(3) != 0;
    let pool = Arc::new(MemoryPool::new(limit));
    for round in 0..2 {
        let reported = Arc::new(std::sync::atomic::AtomicUsize::new(0));
        let barrier = Arc::new(std::sync::Barrier::new(nthreads + 1));
        let mut handles = Vec::new();
        for t in 0..nthreads {
            let pool = pool.clone();
            let reported = reported.clone();
            let barrier = barrier.clone();
            let mut r = Rng(seed ^ ((round * 16 + t) as u64 + 1).wrapping_mul(0x2545F4914F6CDD1D));
            handles.push(std::thread::spawn(move || {
                let pool_ref: &MemoryPool = &pool;
                let mut held: Vec<MemoryReservation<'_>> = Vec::new();
                for _ in 0..2 + r.below(5) {
                    match r.below(8) {
                        0..=3 => {
                            // sizes around the limit, so that two concurrent conditional
                            // requests fit one at a time but not together
                            let s = if limit > 0 && limit < 1000 && r.below(4) != 0 { limit / 3 + r.below((limit - limit / 3) as u64 + 1) as usize } else { r.below(60) as usize };
                            if let Some(res) = pool_ref.try_allocate(s) {
                                assert_eq!(res.size(), s);
                                held.push(res);
                            }
                        }
                        4 if !conditional_only => held.push(pool_ref.allocate(r.below(30) as usize)),
                        5 => {
                            if let Some(h) = held.last_mut() {
                                // shrinking only in a conditional round: growing is an unconditional grant
                                let ns = if conditional_only { r.below(h.size() as u64 + 1) as usize } else { r.below(80) as usize };
                                h.resize(ns);
                                assert_eq!(h.size(), ns);
                            }
                        }
                        _ => {
                            if !held.is_empty() {
                                let i = r.below(held.len() as u64) as usize;
                                drop(held.swap_remove(i));
                            }
                        }
                    }
                    // usage can never be below what this thread alone still holds
                    let live: usize = held.iter().map(|h| h.size()).sum();
                    let u = pool_ref.used();
                    assert!(u >= live, "C33 VIOLATED: used()={u} is below this thread's own live reservations {live}");
                    // every grant of this round is conditional (and resizes only shrink), so the
                    // usage may never be observed above the limit
                    if conditional_only {
                        assert!(u <= limit, "C33 VIOLATED: used()={u} observed above the limit {limit} in a round of conditional grants only");
                    }
                }
                let live: usize = held.iter().map(|h| h.size()).sum();
                reported.fetch_add(live, std::sync::atomic::Ordering::SeqCst);
                barrier.wait(); // A: everybody holds what it holds
                barrier.wait(); // B: the main thread has looked
                drop(held);
            }));
        }
        barrier.wait(); // A
        let live_total = reported.load(std::sync::atomic::Ordering::SeqCst);
        // quiescent: usage equals the sum of live reservations
        assert_eq!(pool.used(), live_total, "C33 VIOLATED: pool.used()={} but live reservations sum to {live_total} (limit {limit}, seed {seed}, round {round})", pool.used());
        if conditional_only {
            assert!(live_total <= limit, "C33 VIOLATED: conditional grants sum to {live_total}, beyond the limit {limit} (seed {seed}, round {round})");
        }
        barrier.wait(); // B
        for h in handles {
            h.join().unwrap();
        }
        assert_eq!(pool.used(), 0, "C33 VIOLATED: usage did not return to zero (seed {seed}, round {round})");
    }
    println!("ok seed={seed} threads={nthreads} limit={limit} conditional_only={conditional_only}");
}
