#!/bin/bash
# Miri tier of C33 (thorough only): the real memory pool under Miri's seeded scheduler with
# the data-race detector and weak-memory emulation on.  sched/miri.sh <VERIF_SEED>  or
# sched/miri.sh --replay <file>.  Exit 0 held, 1 violation (VIOLATION line printed), 2 harness error.
[ "$1" = "--replay" ] && REPLAY_FILE=$(realpath "$2")
cd "$(dirname "$0")/../miri" || exit 2
export CARGO_NET_OFFLINE=true
ROOT="${VERIF_ROOT:-/verif}"
FLAGS_BASE="-Zmiri-preemption-rate=0.3"
if [ "$1" = "--replay" ]; then
  W=$(python3 -c "import json,sys;print(json.load(open(sys.argv[1]))['workload_seed'])" "$REPLAY_FILE") || exit 2
  M=$(python3 -c "import json,sys;print(json.load(open(sys.argv[1]))['miri_seed'])" "$REPLAY_FILE") || exit 2
  OUT=$(MIRIFLAGS="-Zmiri-seed=$M $FLAGS_BASE" cargo +nightly miri run --offline -- "$W" 2>&1)
  if echo "$OUT" | grep -q 'C33 VIOLATED\|Undefined Behavior\|Data race'; then
    echo "$OUT" | grep -E 'C33 VIOLATED|Undefined Behavior|Data race' | head -3
    echo "VIOLATION property=C33 replay=$2"; exit 1
  fi
  echo "replay clean: no violation"; exit 0
fi
SEED="${1:-20260921}"
WORKLOADS="${VERIF_MIRI_WORKLOADS:-24}"
MSEEDS="${VERIF_MIRI_SEEDS:-16}"
if ! cargo +nightly miri setup >/dev/null 2>&1; then echo "warning: miri is not available here; Miri tier skipped"; exit 0; fi
RUNS=0; BAD=0
for i in $(seq 1 "$WORKLOADS"); do
  W=$(( (SEED * 1000003 + i * 7919) % 2147483647 ))
  OUT=$(MIRIFLAGS="-Zmiri-many-seeds=0..$MSEEDS $FLAGS_BASE" cargo +nightly miri run --offline -- "$W" 2>&1)
  OKS=$(echo "$OUT" | grep -c '^ok seed=')
  RUNS=$((RUNS + OKS))
  if echo "$OUT" | grep -q 'C33 VIOLATED\|Undefined Behavior\|Data race'; then
    # find one failing Miri seed for an exact replay
    for M in $(seq 0 $((MSEEDS - 1))); do
      O2=$(MIRIFLAGS="-Zmiri-seed=$M $FLAGS_BASE" cargo +nightly miri run --offline -- "$W" 2>&1)
      if echo "$O2" | grep -q 'C33 VIOLATED\|Undefined Behavior\|Data race'; then
        mkdir -p "$ROOT/replays"
        F="$ROOT/replays/C33-miri-$W-$M.json"
        MSG=$(echo "$O2" | grep -E 'C33 VIOLATED|Undefined Behavior|Data race' | head -1 | cut -c1-300)
        python3 - "$F" "$W" "$M" "$MSG" <<'PY'
import json,sys
json.dump({"property":"C33","engine":"sched-sim/miri","workload_seed":int(sys.argv[2]),"miri_seed":int(sys.argv[3]),"what":sys.argv[4],
           "replay":"./check C33 --replay <this file>  (MIRIFLAGS=-Zmiri-seed=<miri_seed> cargo +nightly miri run -- <workload_seed> in /verif/miri)"}, open(sys.argv[1],"w"), indent=1)
PY
        echo "  miri: $MSG"
        echo "VIOLATION property=C33 replay=$F"
        BAD=$((BAD + 1))
        break
      fi
    done
    [ "$BAD" -gt 0 ] || echo "warning: a Miri failure for workload $W did not reproduce under a single Miri seed; counted as unreproduced"
  elif [ "$OKS" -eq 0 ]; then
    echo "$OUT" | tail -5; echo "HARNESS-ERROR miri run produced no result for workload $W"; exit 2
  fi
done
python3 - "$ROOT/evidence/C33.json" "$RUNS" "$WORKLOADS" "$MSEEDS" "$BAD" <<'PY'
import json,sys
p=sys.argv[1]
try: d=json.load(open(p))
except Exception: sys.exit(0)
d["coverage"]["miri_tier"]={"executions_completed":int(sys.argv[2]),"workload_seeds":int(sys.argv[3]),"miri_scheduler_seeds_per_workload":int(sys.argv[4]),"violations":int(sys.argv[5]),
  "what":"the same memory.rs with its own std atomics and orderings, real threads under Miri's seeded preemptive scheduler (preemption rate 0.3), data-race detector and weak-memory emulation on; oracle at quiescent points and 'usage never above the limit in a round of conditional grants'"}
d["violations"]=d.get("violations",0)+int(sys.argv[5])
json.dump(d,open(p,"w"),indent=1)
PY
echo "C33 miri tier: $RUNS executions over $WORKLOADS workloads x $MSEEDS scheduler seeds, $BAD violations"
[ "$BAD" -gt 0 ] && exit 1
exit 0
