#!/bin/bash
# ./sched/run.sh <C33|C15> quick|thorough|--replay [file]
cd "$(dirname "$0")"
export CARGO_NET_OFFLINE=true
ID="$1"; MODE="${2:-quick}"
if ! cargo build --release 2>sched_build.log >/dev/null; then
  tail -30 sched_build.log
  echo "HARNESS-ERROR build failed (memory.rs / membership.rs no longer compile standalone with the shuttle swap)"
  exit 2
fi
if [ "$MODE" = "--replay" ]; then
  case "$3" in *C33-miri-*) exec ./miri.sh --replay "$3" ;; esac
  exec ./target/release/qesched replay "$ID" "$3"
fi
if [ "$ID" = "C33" ] && [ "$MODE" = "thorough" ]; then
  # thorough tier: the shuttle search, then the same source under Miri (weak memory, data races)
  ./target/release/qesched check "$ID" "$MODE"; A=$?
  [ "$A" -eq 2 ] && exit 2
  ./miri.sh "${VERIF_SEED:-20260921}"; B=$?
  [ "$B" -eq 2 ] && exit 2
  [ "$A" -ne 0 ] || [ "$B" -ne 0 ] && exit 1
  exit 0
fi
exec ./target/release/qesched check "$ID" "$MODE"
