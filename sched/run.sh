#!/bin/bash
# ./sched/run.sh <C33|C15> quick|thorough|--replay [file]
cd "$(dirname "$0")"
export CARGO_NET_OFFLINE=true
ID="$1"; MODE="${2:-quick}"
if ! cargo build --release 2>sched_build.log >/dev/null; then
  tail -30 sched_build.log
  echo "HARNESS-ERROR build failed (memory.rs / membership.rs no longer compile standalone with the shuttle swap)"
  exit 2
fi
if [ "$MODE" = "--replay" ]; then exec ./target/release/qesched replay "$ID" "$3"; fi
exec ./target/release/qesched check "$ID" "$MODE"
