//! C15 — membership view stays consistent under any discovery and probe history.

use crate::drive::{bump, fnv, record_case, Spec};
use crate::membership::{Discovery, Membership, MembershipChange, PeerStatus};
use shuttle::rand::Rng;
use std::collections::{BTreeMap, BTreeSet};
use std::sync::{Arc, Mutex};

pub const SPEC: Spec = Spec {
    prop: "C15",
    scenario,
    iters_quick: 30_000,
    iters_thorough: 1_500_000,
    rule: "one schedule = either a sequential history of up to 40 operations (set_members over subsets of a 7-address universe with duplicates and self spelled three ways, record_up/down, record_resolve_error, set_discovery, reads) checked operation by operation against a model of the view, or the same operations split over 2-3 shuttle threads with the view invariants asserted after every operation and the final state checked against the model at quiescence; non-trivial = the history changes the member set at least twice; distinct = distinct operation/outcome sequences",
    real: &["distributed/membership.rs Membership, included by path, its Mutex swapped for shuttle's behind a parking_lot-shaped facade", "is_self_address with real getaddrinfo/getifaddrs"],
    stub: &[],
    assumptions: &["'is self' of the model follows the documented rule (equal string, equal resolved socket address, same port on a local interface) evaluated against this sandbox's interfaces", "generation must never decrease and must advance on every member-set change; additional advances (probe status flips) are allowed"],
};

const SELF: &str = "127.0.0.1:7777";
const UNIVERSE: &[&str] = &[
    "127.0.0.1:7777",            // self, verbatim
    "localhost:7777",            // self by resolution
    "127.0.0.1:7778",            // port-only difference: a peer
    "10.7.0.2:7777",
    "10.7.0.3:7777",
    "10.7.0.4:9999",
    "no-such-host.invalid:7777", // unresolvable: a peer that will never answer
];

fn model_is_self(a: &str) -> bool {
    a == SELF || a == "localhost:7777"
}

#[derive(Clone, Debug, PartialEq)]
struct PeerModel {
    status: PeerStatus,
    node_id: Option<u64>,
    failures: u32,
    has_error: bool,
}

#[derive(Clone, Debug)]
struct Model {
    peers: BTreeMap<String, PeerModel>,
    resolved: bool,
    last_generation: u64,
}

#[derive(Clone, Debug)]
enum Op {
    Set(Vec<String>),
    Up(String, Option<u64>),
    Down(String),
    ResolveError,
    SetDiscovery(Vec<String>),
    Read,
}

fn gen_op(rng: &mut impl Rng) -> Op {
    let pick = |rng: &mut dyn FnMut() -> usize| UNIVERSE[rng() % UNIVERSE.len()].to_string();
    match rng.gen_range(0..12u32) {
        0..=3 => {
            let n = rng.gen_range(0..6usize);
            let mut v = Vec::new();
            for _ in 0..n {
                v.push(UNIVERSE[rng.gen_range(0..UNIVERSE.len())].to_string());
            }
            Op::Set(v)
        }
        4 | 5 => Op::Up(UNIVERSE[rng.gen_range(0..UNIVERSE.len())].to_string(), if rng.gen_range(0..3u32) == 0 { None } else { Some(rng.gen_range(0..9u64)) }),
        6 | 7 => Op::Down(UNIVERSE[rng.gen_range(0..UNIVERSE.len())].to_string()),
        8 => Op::ResolveError,
        9 => {
            let _ = pick;
            Op::SetDiscovery(vec![UNIVERSE[rng.gen_range(0..UNIVERSE.len())].to_string()])
        }
        _ => Op::Read,
    }
}

/// View invariants that hold at every instant, whatever the interleaving.
fn check_view(m: &Membership, who: &str) {
    let members = m.members();
    let selfs = members.iter().filter(|x| x.is_self).count();
    assert_eq!(selfs, 1, "C15 VIOLATED ({who}): the view lists this node {selfs} times");
    let addrs: Vec<&str> = members.iter().map(|x| x.address.as_str()).collect();
    for w in addrs.windows(2) {
        assert!(w[0] < w[1], "C15 VIOLATED ({who}): addresses not strictly increasing: {addrs:?}");
    }
    for x in members.iter().filter(|x| !x.is_self) {
        assert!(!model_is_self(&x.address), "C15 VIOLATED ({who}): this node listed as a peer under the spelling {}", x.address);
    }
    for p in m.peer_addresses() {
        assert!(!model_is_self(&p), "C15 VIOLATED ({who}): peer_addresses() contains this node as {p}");
    }
}

fn apply(m: &Membership, model: &mut Model, op: &Op, trace: &mut Vec<u8>) {
    match op {
        Op::Set(v) => {
            let before: BTreeSet<String> = model.peers.keys().cloned().collect();
            let incoming: BTreeSet<String> = v.iter().filter(|a| !model_is_self(a)).cloned().collect();
            let changes = m.set_members(v.clone());
            let changed = before != incoming;
            // surviving peers keep their probe state; new ones start Unknown
            let mut next = BTreeMap::new();
            for a in &incoming {
                next.insert(a.clone(), model.peers.get(a).cloned().unwrap_or(PeerModel { status: PeerStatus::Unknown, node_id: None, failures: 0, has_error: false }));
            }
            model.peers = next;
            model.resolved = true;
            let added: BTreeSet<String> = changes.iter().filter_map(|c| if let MembershipChange::Added(a) = c { Some(a.clone()) } else { None }).collect();
            let removed: BTreeSet<String> = changes.iter().filter_map(|c| if let MembershipChange::Removed(a) = c { Some(a.clone()) } else { None }).collect();
            assert_eq!(added, incoming.difference(&before).cloned().collect::<BTreeSet<_>>(), "C15 VIOLATED: reported additions");
            assert_eq!(removed, before.difference(&incoming).cloned().collect::<BTreeSet<_>>(), "C15 VIOLATED: reported removals");
            let g = m.generation();
            if changed {
                assert!(g > model.last_generation, "C15 VIOLATED: member set changed ({before:?} -> {incoming:?}) but the generation stayed at {g}");
                trace.push(1);
            } else {
                assert!(g >= model.last_generation, "C15 VIOLATED: generation decreased");
                trace.push(2);
            }
            model.last_generation = g;
        }
        Op::Up(a, id) => {
            m.record_up(a, *id, None);
            if let Some(p) = model.peers.get_mut(a) {
                p.status = PeerStatus::Up;
                p.failures = 0;
                p.has_error = false;
                if id.is_some() {
                    p.node_id = *id;
                }
            }
            trace.push(3);
        }
        Op::Down(a) => {
            m.record_down(a, "probe failed");
            if let Some(p) = model.peers.get_mut(a) {
                p.status = PeerStatus::Down;
                p.failures = p.failures.saturating_add(1);
                p.has_error = true;
            }
            trace.push(4);
        }
        Op::ResolveError => {
            let before = m.peer_addresses();
            m.record_resolve_error("NXDOMAIN");
            assert_eq!(m.peer_addresses(), before, "C15 VIOLATED: a resolve error changed the member set");
            assert!(m.last_resolve_error().is_some());
            trace.push(5);
        }
        Op::SetDiscovery(v) => {
            m.set_discovery(Discovery::Static(v.clone()));
            trace.push(6);
        }
        Op::Read => trace.push(7),
    }
    // the whole view equals the model after every operation
    check_view(m, "sequential");
    let g = m.generation();
    assert!(g >= model.last_generation, "C15 VIOLATED: generation decreased from {} to {g}", model.last_generation);
    model.last_generation = g;
    assert_eq!(m.resolved(), model.resolved, "C15 VIOLATED: resolved flag");
    let members = m.members();
    let peers: Vec<_> = members.iter().filter(|x| !x.is_self).collect();
    assert_eq!(peers.iter().map(|x| x.address.clone()).collect::<Vec<_>>(), model.peers.keys().cloned().collect::<Vec<_>>(), "C15 VIOLATED: member set differs from the model");
    for x in peers {
        let p = &model.peers[&x.address];
        assert_eq!(x.status, p.status, "C15 VIOLATED: probe status of {} not preserved", x.address);
        assert_eq!(x.node_id, p.node_id, "C15 VIOLATED: node id of {} not preserved", x.address);
        assert_eq!(x.consecutive_failures, p.failures, "C15 VIOLATED: failure count of {} not preserved", x.address);
        assert_eq!(x.last_error.is_some(), p.has_error, "C15 VIOLATED: last_error of {}", x.address);
    }
}

pub fn scenario() {
    let mut rng = shuttle::rand::thread_rng();
    let m = Arc::new(Membership::new(7, SELF, Discovery::Static(vec![])));
    let sequential = rng.gen_range(0..3u32) != 0;
    // the first execution of a scheduler batch is concurrent (PCT needs it to size itself)
    let first = crate::drive::BATCH_START.swap(false, std::sync::atomic::Ordering::SeqCst);
    if sequential && !first {
        // sequential history against the model
        let n = 1 + rng.gen_range(0..40usize);
        let mut model = Model { peers: BTreeMap::new(), resolved: false, last_generation: 0 };
        let mut trace = Vec::new();
        let mut changes = 0;
        for _ in 0..n {
            let op = gen_op(&mut rng);
            let before = trace.len();
            apply(&m, &mut model, &op, &mut trace);
            if trace.get(before) == Some(&1) {
                changes += 1;
            }
        }
        bump("sequential_histories");
        if changes >= 2 {
            bump("histories_with_churn");
        }
        let t = trace.clone();
        record_case(fnv(&trace), changes >= 2, || format!("sequential history outcomes={t:?} final_peers={:?}", model.peers.keys().collect::<Vec<_>>()));
    } else {
        // the same operations from 2-3 threads: invariants at every step
        let nthreads = 2 + rng.gen_range(0..2usize);
        let scripts: Vec<Vec<Op>> = (0..nthreads).map(|_| (0..1 + rng.gen_range(0..6usize)).map(|_| gen_op(&mut rng)).collect()).collect();
        let order = Arc::new(Mutex::new(Vec::<u8>::new()));
        let mut handles = Vec::new();
        for (t, script) in scripts.into_iter().enumerate() {
            let m = m.clone();
            let order = order.clone();
            handles.push(shuttle::thread::spawn(move || {
                let mut last_gen = 0u64;
                for op in script {
                    match &op {
                        Op::Set(v) => {
                            m.set_members(v.clone());
                        }
                        Op::Up(a, id) => m.record_up(a, *id, None),
                        Op::Down(a) => m.record_down(a, "probe failed"),
                        Op::ResolveError => m.record_resolve_error("NXDOMAIN"),
                        Op::SetDiscovery(v) => m.set_discovery(Discovery::Static(v.clone())),
                        Op::Read => {}
                    }
                    order.lock().unwrap().push(t as u8);
                    check_view(&m, "concurrent");
                    let g = m.generation();
                    assert!(g >= last_gen, "C15 VIOLATED: generation decreased from {last_gen} to {g} as observed by one thread");
                    last_gen = g;
                }
            }));
        }
        for h in handles {
            h.join().unwrap();
        }
        check_view(&m, "quiescent");
        bump("concurrent_histories");
        let o = order.lock().unwrap().clone();
        let switches = o.windows(2).filter(|w| w[0] != w[1]).count();
        record_case(fnv(&o) ^ 0x5555, switches >= 2, || format!("concurrent completion order={o:?}"));
    }
}
