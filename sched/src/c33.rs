//! C33 — memory pool accounting is exact under concurrency.
//!
//! Oracle: a plain ledger updated immediately after each pool call returns.  shuttle
//! switches threads only at its own primitives and every pool operation's last primitive
//! access is its linearisation point, so ledger order IS the executed linearisation and
//! the comparison is exact in both directions.

use crate::drive::{bump, fnv, record_case, Spec};
use crate::memory::{MemoryPool, MemoryReservation};
use shuttle::rand::Rng;
use std::sync::{Arc, Mutex};

pub const SPEC: Spec = Spec {
    prop: "C33",
    scenario,
    iters_quick: 400_000,
    iters_thorough: 40_000_000,
    rule: "one schedule = 2-4 shuttle threads each running a seeded script of up to 10 operations (try_allocate / allocate / resize / drop) against one real MemoryPool with a seeded limit (0, small, around the sum of sizes, usize::MAX, with occasional near-usize::MAX requests); a plain ledger is the sequential model; non-trivial = the executed linearisation interleaves at least two threads; distinct = distinct (limit class, linearised (thread, operation, outcome) sequence)",
    real: &["execution/memory.rs MemoryPool and MemoryReservation, included by path, atomics swapped for shuttle's"],
    stub: &["crate::error (six-line stand-in; the pool never constructs an error)"],
    assumptions: &["shuttle models sequentially consistent atomics: weak-memory reorderings are not explored here", "the ledger is exact because no shuttle primitive separates a pool call's last atomic access from the ledger update"],
};

#[derive(Clone, Debug)]
enum Op {
    Try(usize),
    Force(usize),
    Resize(usize, usize),
    Drop(usize),
}

struct Ledger {
    used: u128,
    order: Vec<(u8, u8, u8)>,
}

fn gen_script(rng: &mut impl Rng, big: bool) -> Vec<Op> {
    let n = 1 + rng.gen_range(0..10usize);
    (0..n)
        .map(|_| match rng.gen_range(0..10u32) {
            0..=3 => Op::Try(if big && rng.gen_range(0..6u32) == 0 { usize::MAX - rng.gen_range(0..40usize) } else { rng.gen_range(0..40usize) }),
            4 => Op::Force(rng.gen_range(0..40usize)),
            5 | 6 => Op::Resize(rng.gen_range(0..4usize), rng.gen_range(0..60usize)),
            _ => Op::Drop(rng.gen_range(0..4usize)),
        })
        .collect()
}

pub fn scenario() {
    let mut rng = shuttle::rand::thread_rng();
    let nthreads = 2 + rng.gen_range(0..3usize);
    let limit_class = rng.gen_range(0..5u32);
    let limit = match limit_class {
        0 => 0usize,
        1 => rng.gen_range(1..64usize),
        2 => rng.gen_range(64..200usize),
        3 => usize::MAX,
        _ => rng.gen_range(20..90usize),
    };
    let scripts: Vec<Vec<Op>> = (0..nthreads).map(|_| gen_script(&mut rng, limit_class != 3)).collect();
    let pool = Arc::new(MemoryPool::new(limit));
    let ledger = Arc::new(Mutex::new(Ledger { used: 0, order: Vec::new() }));
    let mut handles = Vec::new();
    for (t, script) in scripts.iter().cloned().enumerate() {
        let pool = pool.clone();
        let ledger = ledger.clone();
        handles.push(shuttle::thread::spawn(move || {
            let pool_ref: &MemoryPool = &pool;
            let mut held: Vec<MemoryReservation<'_>> = Vec::new();
            for op in script {
                match op {
                    Op::Try(s) => {
                        let r = pool_ref.try_allocate(s);
                        let mut l = ledger.lock().unwrap();
                        let fits = l.used + s as u128 <= limit as u128;
                        assert_eq!(r.is_some(), fits, "C33 VIOLATED: try_allocate({s}) returned {} with {} in use and limit {limit}", if r.is_some() { "Some" } else { "None" }, l.used);
                        if let Some(res) = r {
                            assert_eq!(res.size(), s, "C33 VIOLATED: reservation size");
                            l.used += s as u128;
                            l.order.push((t as u8, 0, 1));
                            drop(l);
                            held.push(res);
                        } else {
                            l.order.push((t as u8, 0, 0));
                        }
                    }
                    Op::Force(s) => {
                        let res = pool_ref.allocate(s);
                        let mut l = ledger.lock().unwrap();
                        l.used += s as u128;
                        l.order.push((t as u8, 1, 1));
                        drop(l);
                        held.push(res);
                    }
                    Op::Resize(i, ns) => {
                        if held.is_empty() {
                            continue;
                        }
                        let i = i % held.len();
                        let old = held[i].size();
                        held[i].resize(ns);
                        let mut l = ledger.lock().unwrap();
                        assert_eq!(held[i].size(), ns, "C33 VIOLATED: resize did not record the new size");
                        l.used = l.used + ns as u128 - old as u128;
                        l.order.push((t as u8, 2, (ns > old) as u8));
                    }
                    Op::Drop(i) => {
                        if held.is_empty() {
                            continue;
                        }
                        let i = i % held.len();
                        let res = held.swap_remove(i);
                        let size = res.size();
                        drop(res);
                        let mut l = ledger.lock().unwrap();
                        assert!(l.used >= size as u128, "C33 VIOLATED: ledger underflow");
                        l.used -= size as u128;
                        l.order.push((t as u8, 3, 1));
                    }
                }
                // usage equals the sum of live reservations at every linearisation point
                let u = pool_ref.used();
                let l = ledger.lock().unwrap();
                assert_eq!(u as u128, l.used, "C33 VIOLATED: pool.used()={u} but live reservations sum to {}", l.used);
            }
            // remaining reservations are released one by one
            while let Some(res) = held.pop() {
                let size = res.size();
                drop(res);
                let mut l = ledger.lock().unwrap();
                l.used -= size as u128;
                l.order.push((t as u8, 3, 1));
            }
        }));
    }
    for h in handles {
        h.join().unwrap();
    }
    assert_eq!(pool.used(), 0, "C33 VIOLATED: usage did not return to zero after every reservation was dropped");
    let l = ledger.lock().unwrap();
    assert_eq!(l.used, 0);
    // interleaving measure: the linearised sequence; non-trivial when threads alternate
    let mut switches = 0;
    for w in l.order.windows(2) {
        if w[0].0 != w[1].0 {
            switches += 1;
        }
    }
    let nontrivial = switches >= nthreads;
    if l.order.iter().any(|o| o.1 == 0 && o.2 == 0) {
        bump("try_allocate_refused");
    }
    if limit_class == 3 {
        bump("unbounded_pool");
    }
    let mut bytes = vec![limit_class as u8];
    for o in &l.order {
        bytes.extend_from_slice(&[o.0, o.1, o.2]);
    }
    let order = l.order.clone();
    record_case(fnv(&bytes), nontrivial, || format!("limit={limit} threads={nthreads} linearisation={:?}", order.iter().map(|o| format!("t{}:{}{}", o.0, ["try", "force", "resize", "drop"][o.1 as usize], if o.1 == 0 { if o.2 == 1 { "=Some" } else { "=None" } } else { "" })).collect::<Vec<_>>()));
}
