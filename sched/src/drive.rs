//! Batch driver: seeded shuttle schedulers (random and PCT), failure capture with the
//! persisted schedule as the replay file, evidence.

use shuttle::scheduler::{PctScheduler, RandomScheduler};
use shuttle::{Config, FailurePersistence, Runner};
use std::collections::BTreeSet;
use std::path::PathBuf;
use std::sync::Mutex;
use std::time::Instant;

pub struct Spec {
    pub prop: &'static str,
    pub scenario: fn(),
    pub iters_quick: usize,
    pub iters_thorough: usize,
    pub rule: &'static str,
    pub real: &'static [&'static str],
    pub stub: &'static [&'static str],
    pub assumptions: &'static [&'static str],
}

/// Per-process statistics the scenarios feed (plain std locks, never held across a
/// shuttle primitive).
pub static CASES: Mutex<BTreeSet<u64>> = Mutex::new(BTreeSet::new());
pub static SAMPLES: Mutex<Vec<String>> = Mutex::new(Vec::new());
pub static COUNTERS: Mutex<std::collections::BTreeMap<String, u64>> = Mutex::new(std::collections::BTreeMap::new());
pub static EVALS: std::sync::atomic::AtomicU64 = std::sync::atomic::AtomicU64::new(0);

pub fn bump(k: &str) {
    *COUNTERS.lock().unwrap().entry(k.to_string()).or_insert(0) += 1;
}
pub fn record_case(hash: u64, nontrivial: bool, sample: impl FnOnce() -> String) {
    EVALS.fetch_add(1, std::sync::atomic::Ordering::Relaxed);
    if nontrivial {
        let fresh = CASES.lock().unwrap().insert(hash);
        if fresh {
            let mut s = SAMPLES.lock().unwrap();
            if s.len() < 3 {
                s.push(sample());
            }
        }
    }
}
pub fn fnv(bytes: &[u8]) -> u64 {
    let mut h: u64 = 0xcbf29ce484222325;
    for b in bytes {
        h ^= *b as u64;
        h = h.wrapping_mul(0x100000001b3);
    }
    h
}

fn verif_root() -> PathBuf {
    std::env::var("VERIF_ROOT").map(PathBuf::from).unwrap_or_else(|_| PathBuf::from("/verif"))
}

fn config(dir: &PathBuf) -> Config {
    let mut cfg = Config::new();
    cfg.failure_persistence = FailurePersistence::File(Some(dir.clone()));
    cfg.max_steps = shuttle::MaxSteps::FailAfter(200_000);
    cfg
}

/// Raised before every scheduler batch; see `check`.
pub static BATCH_START: std::sync::atomic::AtomicBool = std::sync::atomic::AtomicBool::new(false);

pub fn check(spec: &Spec, tier: &str) -> i32 {
    let t0 = Instant::now();
    let seed: u64 = std::env::var("VERIF_SEED").ok().and_then(|s| s.parse().ok()).unwrap_or(20260921);
    let thorough = tier == "thorough";
    let iters = if thorough { spec.iters_thorough } else { spec.iters_quick };
    let iters = std::env::var("VERIF_RUNS").ok().and_then(|s| s.parse().ok()).unwrap_or(iters);
    println!("check {} tier={tier} VERIF_SEED={seed}", spec.prop);
    let dir = verif_root().join("replays").join(format!("{}-schedules", spec.prop));
    let _ = std::fs::create_dir_all(&dir);
    let before: BTreeSet<PathBuf> = std::fs::read_dir(&dir).map(|d| d.flatten().map(|e| e.path()).collect()).unwrap_or_default();
    if std::env::var("VERIF_SCHED_LOUD").is_err() { std::panic::set_hook(Box::new(|_| {})); }
    let scenario = spec.scenario;
    // three batches: uniformly random schedules, and PCT at depth 2 and 3
    let batches: Vec<(&str, Box<dyn FnOnce() + Send>)> = vec![
        ("random", {
            let d = dir.clone();
            Box::new(move || { Runner::new(RandomScheduler::new_from_seed(seed, iters / 2), config(&d)).run(scenario); })
        }),
        ("pct2", {
            let d = dir.clone();
            Box::new(move || { Runner::new(PctScheduler::new_from_seed(seed ^ 0x9e37, 2, iters / 4), config(&d)).run(scenario); })
        }),
        ("pct3", {
            let d = dir.clone();
            Box::new(move || { Runner::new(PctScheduler::new_from_seed(seed ^ 0x79b9, 3, iters / 4), config(&d)).run(scenario); })
        }),
    ];
    let mut failures: Vec<(String, String)> = Vec::new();
    for (name, b) in batches {
        // the PCT scheduler measures its step bound on the first execution of a batch and
        // refuses to go on if that execution had no concurrency: scenarios that are sometimes
        // sequential take their concurrent branch when this flag is up
        BATCH_START.store(true, std::sync::atomic::Ordering::SeqCst);
        let r = std::panic::catch_unwind(std::panic::AssertUnwindSafe(b));
        if let Err(p) = r {
            let msg = p.downcast_ref::<String>().cloned().or_else(|| p.downcast_ref::<&str>().map(|s| s.to_string())).unwrap_or_else(|| "panic".into());
            failures.push((name.to_string(), msg));
        }
    }
    let after: BTreeSet<PathBuf> = std::fs::read_dir(&dir).map(|d| d.flatten().map(|e| e.path()).collect()).unwrap_or_default();
    let new_files: Vec<PathBuf> = after.difference(&before).cloned().collect();
    let mut violations = 0;
    let mut aborted = 0;
    for (i, (batch, msg)) in failures.iter().enumerate() {
        let first_line = msg.lines().find(|l| l.contains("VIOLATED") || l.contains("assert") || l.contains("panicked")).unwrap_or(msg.lines().next().unwrap_or("")).to_string();
        let sched = new_files.get(i).cloned();
        match sched {
            Some(path) => {
                // the persisted schedule must reproduce in a fresh process
                let exe = std::env::current_exe().unwrap();
                let st = std::process::Command::new(&exe).args(["replay", spec.prop, path.to_str().unwrap()]).stdout(std::process::Stdio::null()).stderr(std::process::Stdio::null()).status();
                if matches!(st.map(|s| s.code()), Ok(Some(1))) {
                    println!("  batch={batch}: {}", first_line.chars().take(400).collect::<String>());
                    println!("VIOLATION property={} replay={}", spec.prop, path.display());
                    violations += 1;
                } else {
                    println!("warning: schedule {} did not reproduce in a fresh process; counted as unreproduced (batch {batch} stopped early: {})", path.display(), first_line.chars().take(160).collect::<String>());
                    aborted += 1;
                }
            }
            None => {
                println!("HARNESS-ERROR batch {batch} failed without a persisted schedule: {}", msg.chars().take(300).collect::<String>());
                return 2;
            }
        }
    }
    let wall = t0.elapsed().as_secs_f64();
    let evals = EVALS.load(std::sync::atomic::Ordering::Relaxed);
    let cases = CASES.lock().unwrap().len() as u64;
    let counters = COUNTERS.lock().unwrap().clone();
    let samples = SAMPLES.lock().unwrap().clone();
    let ev = serde_json::json!({
        "property_id": spec.prop, "tier": tier, "seed": seed, "level": "exploration", "wall_s": wall, "violations": violations,
        "assumptions": spec.assumptions,
        "coverage": {
            "evaluations": evals, "distinct_nontrivial": cases, "rule": spec.rule, "samples": samples,
            "runs_per_hour": if wall > 0.0 { (evals as f64 / wall * 3600.0) as u64 } else { 0 },
            "simulated_seconds": 0.0,
            "schedulers": {"random": iters / 2, "pct_depth2": iters / 4, "pct_depth3": iters / 4}, "batches_stopped_early_without_a_reproducible_schedule": aborted,
            "faults": {}, "probes": counters, "components": {"real": spec.real, "stub": spec.stub},
        }
    });
    let evdir = verif_root().join("evidence");
    let _ = std::fs::create_dir_all(&evdir);
    let _ = std::fs::write(evdir.join(format!("{}.json", spec.prop)), serde_json::to_vec_pretty(&ev).unwrap());
    println!("{}: {} schedules, {} distinct non-trivial interleavings, {:.1}s wall, {} violations", spec.prop, evals, cases, wall, violations);
    if violations > 0 {
        1
    } else {
        0
    }
}

pub fn replay(spec: &Spec, file: &str) -> i32 {
    std::panic::set_hook(Box::new(|_| {}));
    let scenario = spec.scenario;
    let path = file.to_string();
    let r = std::panic::catch_unwind(move || shuttle::replay_from_file(scenario, &path));
    match r {
        Err(p) => {
            let msg = p.downcast_ref::<String>().cloned().or_else(|| p.downcast_ref::<&str>().map(|s| s.to_string())).unwrap_or_default();
            println!("REPRODUCED {}", msg.lines().next().unwrap_or(""));
            println!("VIOLATION property={} replay={}", spec.prop, file);
            1
        }
        Ok(()) => {
            println!("replay clean: no violation");
            0
        }
    }
}
