//! sched-sim: the real memory pool (C33) and membership view (C15) sources, included
//! by path from /repo with their synchronisation imports swapped for shuttle's, driven
//! under shuttle's seeded schedulers and checked against small executable models.

#![allow(dead_code)]

mod error {
    //! Stand-in for `crate::error` of the engine (memory.rs only builds error values).
    #[derive(Debug)]
    pub enum QueryError {
        Execution(String),
    }
    impl std::fmt::Display for QueryError {
        fn fmt(&self, f: &mut std::fmt::Formatter<'_>) -> std::fmt::Result {
            write!(f, "{self:?}")
        }
    }
    pub type Result<T> = std::result::Result<T, QueryError>;
}

mod shuttle_shim {
    //! parking_lot-shaped facade over shuttle's Mutex (`lock()` returns the guard).
    pub struct Mutex<T>(shuttle::sync::Mutex<T>);
    impl<T> Mutex<T> {
        pub fn new(v: T) -> Self {
            Mutex(shuttle::sync::Mutex::new(v))
        }
        pub fn lock(&self) -> shuttle::sync::MutexGuard<'_, T> {
            self.0.lock().unwrap()
        }
    }
    impl<T: std::fmt::Debug> std::fmt::Debug for Mutex<T> {
        fn fmt(&self, f: &mut std::fmt::Formatter<'_>) -> std::fmt::Result {
            write!(f, "Mutex(..)")
        }
    }
}

#[path = "/repo/src/execution/memory.rs"]
mod memory;
#[path = "/repo/src/distributed/membership.rs"]
mod membership;

mod c15;
mod c33;
mod drive;

fn main() {
    let args: Vec<String> = std::env::args().collect();
    if args.len() < 4 {
        eprintln!("usage: qesched check <C33|C15> quick|thorough | replay <C33|C15> <file>");
        std::process::exit(2);
    }
    let code = match (args[1].as_str(), args[2].as_str()) {
        ("check", "C33") => drive::check(&c33::SPEC, &args[3]),
        ("check", "C15") => drive::check(&c15::SPEC, &args[3]),
        ("replay", "C33") => drive::replay(&c33::SPEC, &args[3]),
        ("replay", "C15") => drive::replay(&c15::SPEC, &args[3]),
        _ => {
            eprintln!("unknown command");
            2
        }
    };
    std::process::exit(code);
}
