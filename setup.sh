#!/bin/bash
# One full offline build of the simulators against /repo's working tree.
set -e
cd "$(dirname "$0")"
export CARGO_NET_OFFLINE=true
python3 sim/gen_shadow.py
(cd sim && cargo build --profile sim -p qesim 2>&1 | tail -3)
(cd sched && cargo build --release 2>&1 | tail -3)
echo "setup ok"
