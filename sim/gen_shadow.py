#!/usr/bin/env python3
"""Regenerate the shadow manifest /verif/sim/qe/Cargo.toml from /repo/Cargo.toml.

The shadow package has the same name and dependencies as the repository's package but
  * only a [lib] target whose path is /repo/src/lib.rs (so every build compiles the
    current working tree of /repo),
  * no [[bin]] / [[bench]] / [profile.*] / [dev-dependencies] sections,
  * tokio's `test-util` feature switched on (paused clock for the simulators).
Nothing in /repo is touched.  The file is only rewritten when its content changes so
cargo's fingerprints stay valid.
"""
import os, re, sys
REPO = os.environ.get("VERIF_REPO", "/repo")
src = open(os.path.join(REPO, "Cargo.toml")).read()
out, skip = [], False
for line in src.splitlines():
    m = re.match(r"^\s*\[(\[?)([^\]]+)\]", line)
    if m:
        sec = m.group(2).strip()
        skip = sec in ("bin", "bench", "example", "test", "dev-dependencies", "workspace") or sec.startswith("profile") or sec.startswith("lib")
    if skip:
        continue
    if re.match(r"^tokio\s*=", line):
        line = 'tokio = { version = "1", features = ["full", "test-util"] }'
    out.append(line)
txt = "\n".join(out).rstrip() + "\n"
txt += '\n[lib]\nname = "query_engine"\npath = "%s/src/lib.rs"\n' % REPO
# cfgs that only the verification build passes; declared so rustc does not warn
txt += '\n[lints.rust]\nunexpected_cfgs = { level = "allow", check-cfg = ["cfg(qe_verif)", "cfg(qe_verif_shuttle)", "cfg(tokio_unstable)"] }\n'
dst = os.path.join(os.path.dirname(os.path.abspath(__file__)), "qe", "Cargo.toml")
old = open(dst).read() if os.path.exists(dst) else None
if old != txt:
    open(dst, "w").write(txt)
    print("shadow manifest written")
