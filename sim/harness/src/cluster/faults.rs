//! C10 (a failing fragment fails the query), C14 (divergent replicas refuse) and C45
//! (gathered tables carry every column) at the transport layer.

use super::runs::{build_scenario, compare, stmt_features};
use super::splits::footer_truth;
use super::transport::{CannedTransport, Fault, Planned, SimTransport};
use super::world::register;
use super::{outcome_of, simulate, violation, Outcome};
use crate::kit::datagen::{self, ParquetLayout};
use crate::kit::report::{RunOut, Tier, Violation};
use crate::kit::rng::{fnv, Rng};
use crate::kit::sqlgen::{self, Family};
use parking_lot::Mutex;
use query_engine::distributed::{execute_any_distributed, execute_fragment, plan_distributed, plan_gather, splits_of, FragmentRequest};
use query_engine::{ExecutionContext, QueryError};
use serde_json::{json, Value};
use std::collections::BTreeMap;
use std::sync::Arc;

fn ovu(ov: &Value, k: &str) -> Option<usize> {
    ov.get(k).and_then(|v| v.as_u64()).map(|v| v as usize)
}

const TRANSPORT_ERRORS: &[&str] = &["connection-refused", "connection-reset", "timeout", "http-500", "http-503", "http-400"];

/// C10.
pub fn run_c10(prop: &str, tier: Tier, run_seed: u64, ov: &Value) -> RunOut {
    // one run in five works at the wire: real front door, real hyper framing, real
    // http_client, a link that cuts one /fragment response at enumerated offsets
    let wire = ov.get("wire").and_then(|v| v.as_bool()).unwrap_or_else(|| Rng::new(run_seed).fork(99).chance(1, 5));
    if wire {
        return super::wire::run_c10_wire(prop, tier, run_seed, ov);
    }
    run_c10_transport(prop, tier, run_seed, ov)
}

fn run_c10_transport(_prop: &str, tier: Tier, run_seed: u64, ov: &Value) -> RunOut {
    let rng = Rng::new(run_seed);
    let mut out = RunOut::default();
    let mut log: Vec<String> = Vec::new();
    let mut sample = None;
    let mut er = rng.fork(3);
    // which runs also enumerate every truncation offset of one recorded reply
    let enumerate = ov.get("enumerate").and_then(|v| v.as_bool()).unwrap_or(er.chance(1, if tier == Tier::Thorough { 4 } else { 8 }));
    let only_kind = ov.get("only_kind").and_then(|v| v.as_str()).map(String::from);
    let (viol, sim_ms) = simulate(1, run_seed, async {
        let mut ov2 = if ov.is_object() { ov.clone() } else { json!({}) };
        if ov2.get("nodes").is_none() {
            ov2["nodes"] = json!(2 + er.usize(5));
        }
        let sc = build_scenario(&rng, &ov2, sqlgen::ALL_FAMILIES, 8, 0);
        log.push(sc.world.describe().to_string());
        let n = sc.world.nodes.len();
        let mut viol: Vec<Violation> = Vec::new();
        let transport = SimTransport::new(&sc.world);
        for (si, st) in sc.stmts.iter().enumerate() {
            let count = n;
            let initiator = er.usize(count);
            let parts = sc.world.participants(initiator, count);
            let base = &sc.world.nodes[initiator].ctx;
            let shape = match plan_distributed(base, &st.sql) {
                Ok(p) => format!("{:?}", p.shape),
                Err(QueryError::NotImplemented(_)) => "Gather".to_string(),
                Err(_) => "PlanError".to_string(),
            };
            // fault-free reference execution (also records the replies)
            transport.reset();
            transport.state.lock().keep_replies = true;
            let clean = match execute_any_distributed(base, &st.sql, &parts, &transport).await {
                Ok(d) => outcome_of(Ok(d.result)),
                Err(e) => outcome_of(Err(e)),
            };
            let (clean_sends, replies) = {
                let s = transport.state.lock();
                (s.log.clone(), s.replies.clone())
            };
            transport.state.lock().keep_replies = false;
            if clean_sends.is_empty() || !matches!(clean, Outcome::Rows(_)) {
                out.bump("n.no_remote_fragment_or_clean_error");
                log.push(format!("{si} {} skipped clean={}", st.sql, clean.tag()));
                continue;
            }
            // ---- a disk fault under the INITIATOR's own shard. That shard never crosses the
            // transport, so no network fault can reach it: the page headers of the initiator's
            // copy of the sharded table are overwritten (footers intact, so planning, split
            // enumeration and the digest still succeed). If the initiator's own fragment then
            // really fails, the query must fail.
            if let Ok(plan) = plan_distributed(base, &st.sql) {
                let mut lr = rng.fork(0x10ca1 + si as u64);
                let local_files: Vec<std::path::PathBuf> = sc.world.nodes[initiator].files.iter().filter(|(name, _)| *name == plan.table).flat_map(|(_, f)| f.iter().cloned()).collect();
                if lr.chance(1, 5) && !local_files.is_empty() {
                    let backups: Vec<(std::path::PathBuf, Vec<u8>)> = local_files.iter().map(|p| (p.clone(), std::fs::read(p).unwrap_or_default())).collect();
                    for (p, bytes) in &backups {
                        let mut damaged = bytes.clone();
                        if let Ok(reader) = parquet::file::reader::SerializedFileReader::new(bytes::Bytes::from(bytes.clone())) {
                            use parquet::file::reader::FileReader;
                            for rg in reader.metadata().row_groups() {
                                for c in rg.columns() {
                                    let start = c.dictionary_page_offset().unwrap_or(c.data_page_offset()).max(0) as usize;
                                    for b in damaged.iter_mut().skip(start).take(32) {
                                        *b = 0xff;
                                    }
                                }
                            }
                        }
                        let _ = std::fs::write(p, &damaged);
                    }
                    out.bump("fault.local-disk-corrupt.armed");
                    // does the initiator's own fragment fail now? (only then is an error owed)
                    let local_idx = parts.iter().position(|p| p.is_self);
                    let digest = splits_of(base, &plan.table, count).map(|s| s.digest());
                    let mut local_failed = None;
                    if let (Some(idx), Ok(d)) = (local_idx, digest) {
                        let req = FragmentRequest { sql: plan.partial_sql.clone(), table: plan.table.clone(), shard_index: idx, shard_count: count, splits_digest: d };
                        if let Err(e) = super::guarded_result(execute_fragment(base, &req)).await {
                            local_failed = Some(e);
                        }
                    }
                    if let Some(why) = local_failed {
                        out.bump("fault.local-disk-corrupt.fired");
                        transport.reset();
                        let got = super::guarded(execute_any_distributed(base, &st.sql, &parts, &transport)).await;
                        out.case_hashes.push(fnv(format!("{shape}|local-disk|{}", st.family).as_bytes()) ^ fnv(st.sql.as_bytes()));
                        log.push(format!("{si} local-disk-corrupt init={initiator} got={}", got.tag()));
                        if let Outcome::Rows(r) = &got {
                            let mut feats = stmt_features(st, &shape, &got);
                            feats.push("fault:local-disk-corrupt".to_string());
                            viol.push(violation("failed-fragment-fails-query", "ok-despite-failed-local-shard", feats,
                                format!("{} [{shape}]: the initiator's own fragment fails ({}) but the query returned Ok with {} rows", st.sql, why.chars().take(120).collect::<String>(), r.len()),
                                json!({"stmt_index": si, "sql": st.sql, "nodes": count, "initiator": initiator, "shape": shape})));
                        } else {
                            out.bump("probe.local_shard_failure_failed_the_query");
                        }
                    }
                    for (p, bytes) in &backups {
                        let _ = std::fs::write(p, bytes);
                    }
                }
            }
            // choose a fault plan: one to three faults over the remote sends
            let nf = 1 + er.usize(3.min(clean_sends.len()));
            let mut plan: BTreeMap<(String, usize), Planned> = BTreeMap::new();
            let mut kinds: Vec<String> = Vec::new();
            let mut strict = false; // some injected fault makes a shard fail unambiguously
            let mut benign_only = true;
            // per-address send counters in the clean run tell how many sends each address sees
            let mut per_addr: BTreeMap<String, usize> = BTreeMap::new();
            for r in &clean_sends {
                *per_addr.entry(r.address.clone()).or_insert(0) += 1;
            }
            let addrs: Vec<(String, usize)> = per_addr.into_iter().collect();
            for _ in 0..nf {
                let (addr, cnt) = er.pick(&addrs).clone();
                let nth = er.usize(cnt);
                let roll = er.below(20);
                let p = match roll {
                    0..=5 => Planned::Fixed(Fault::TransportError(TRANSPORT_ERRORS[er.usize(TRANSPORT_ERRORS.len())])),
                    6..=8 => Planned::TruncateFrac { num: er.below(1000), den: 1000 },
                    9..=11 => Planned::TruncateBack(1 + er.usize(24)),
                    12 => Planned::TruncateBack(8),
                    13..=14 => Planned::FlipFrac { num: er.below(1000), den: 1000, mask: 1 << er.usize(8) },
                    15 => Planned::Fixed(Fault::ForgeDigest),
                    16..=17 => Planned::Fixed(Fault::Duplicate),
                    _ => Planned::Fixed(Fault::Delay(1 + er.below(900_000))),
                };
                let kind = match &p {
                    Planned::Fixed(f) => f.kind().to_string(),
                    Planned::TruncateFrac { .. } | Planned::TruncateBack(_) => "truncate".to_string(),
                    Planned::FlipFrac { .. } => "flip".to_string(),
                };
                if let Some(k) = &only_kind {
                    if *k != kind && !(TRANSPORT_ERRORS.contains(&kind.as_str()) && k == "transport-error") {
                        continue;
                    }
                }
                plan.insert((addr, nth), p);
                kinds.push(kind);
            }
            if plan.is_empty() {
                continue;
            }
            transport.reset();
            transport.state.lock().plan = plan;
            crate::kit::report::note(&kinds.iter().map(|k| format!("fault:{k}")).collect::<Vec<_>>(), &format!("{} [{shape}] under {:?}", st.sql, kinds));
            let got = super::guarded(execute_any_distributed(base, &st.sql, &parts, &transport)).await;
            if let Outcome::Err { class: "task-panic", .. } = &got {
                out.bump("probe.decoder_panicked_on_corrupt_payload");
            }
            let sends = transport.state.lock().log.clone();
            let mut fired: Vec<String> = Vec::new();
            for r in &sends {
                if let Some(f) = &r.fault {
                    let k = f.kind();
                    out.bump(&format!("fault.{k}.fired"));
                    fired.push(k.to_string());
                    match f {
                        Fault::TransportError(_) | Fault::ForgeDigest => {
                            strict = true;
                            benign_only = false;
                        }
                        Fault::Truncate { at } => {
                            if *at < r.reply_len {
                                strict = true;
                                benign_only = false;
                                if r.reply_len - at <= 8 {
                                    out.bump("probe.truncated_inside_eos_marker");
                                }
                            }
                        }
                        Fault::Flip { .. } => benign_only = false,
                        Fault::Duplicate | Fault::Delay(_) => {}
                    }
                }
            }
            for k in &kinds {
                out.bump(&format!("fault.{k}.armed"));
            }
            log.push(format!("{si} {} shape={shape} init={initiator} clean={} faults={:?} fired={:?} got={}", st.sql, clean.tag(), kinds, fired, got.tag()));
            if fired.is_empty() {
                continue;
            }
            out.case_hashes.push(fnv(format!("{shape}|{:?}|{}", fired, st.family).as_bytes()) ^ fnv(st.sql.as_bytes()));
            let mut feats = stmt_features(st, &shape, &got);
            for k in &fired {
                let f = format!("fault:{k}");
                if !feats.contains(&f) {
                    feats.push(f);
                }
            }
            let ctx_json = json!({"stmt_index": si, "sql": st.sql, "nodes": count, "initiator": initiator, "shape": shape, "faults_fired": fired,
                                   "sends": sends.iter().map(|r| format!("{} shard{} len={} {:?} {}", r.address, r.shard_index, r.reply_len, r.fault, r.outcome)).collect::<Vec<_>>(),
                                   "clean": clean.brief(), "observed": got.brief()});
            if strict {
                if let Outcome::Rows(r) = &got {
                    let sym = if compare(st, &clean, &got).is_ok() { "ok-despite-failed-shard" } else { "partial-answer" };
                    viol.push(violation("failed-fragment-fails-query", sym, feats.clone(),
                        format!("{} [{shape}]: a shard failed ({:?}) but the query returned Ok with {} rows", st.sql, fired, r.len()), ctx_json.clone()));
                }
            } else if benign_only {
                // duplicates and delays must not change the answer
                if let Err((sym, d)) = compare(st, &clean, &got) {
                    viol.push(violation("benign-fault-keeps-answer", &sym, feats.clone(), format!("{} [{shape}] under {:?}: {d}", st.sql, fired), ctx_json.clone()));
                }
            } else {
                // flips: Err, or Ok — a flipped data byte is not something the receiver can see
                if let Outcome::Rows(_) = &got {
                    if compare(st, &clean, &got).is_err() {
                        out.bump("n.undetectable_corruption");
                    }
                }
            }

            // Enumerate every truncation offset of one recorded reply through the real
            // coordinator (decode, merge) with a canned responder for the remote nodes.
            if enumerate && !replies.is_empty() && viol.is_empty() {
                let pick = er.usize(replies.len());
                let mut canned = BTreeMap::new();
                for (addr, req, bytes, rows) in &replies {
                    canned.insert((addr.clone(), req.table.clone(), req.shard_index), (bytes.clone(), *rows));
                }
                let (addr, req, bytes, _) = &replies[pick];
                let key = (addr.clone(), req.table.clone(), req.shard_index);
                let ct = CannedTransport { replies: canned, cut: Mutex::new(None) };
                let len = bytes.len();
                let step = if len > 6000 { len / 3000 + 1 } else { 1 };
                let mut wrong: Vec<usize> = Vec::new();
                let mut k = 0;
                while k < len {
                    *ct.cut.lock() = Some((key.clone(), k));
                    let got = super::guarded(execute_any_distributed(base, &st.sql, &parts, &ct)).await;
                    out.bump("n.truncation_offsets_enumerated");
                    if let Outcome::Rows(_) = &got {
                        wrong.push(k);
                    }
                    k += step;
                }
                out.bump("probe.reply_fully_enumerated");
                out.add("fault.truncate.armed", (len / step) as u64);
                out.add("fault.truncate.fired", (len / step) as u64);
                log.push(format!("{si} enumerated {len} offsets of {addr} shard {} wrong={:?}", req.shard_index, wrong.iter().take(8).collect::<Vec<_>>()));
                if !wrong.is_empty() {
                    let mut f = stmt_features(st, &shape, &Outcome::Rows(vec![]));
                    f.push("fault:truncate".to_string());
                    f.push("enumerated".to_string());
                    viol.push(violation("failed-fragment-fails-query", "partial-answer", f,
                        format!("{} [{shape}]: reply of {addr} shard {} ({len} bytes) cut at offsets {:?}{} returned Ok", st.sql, req.shard_index, wrong.iter().take(12).collect::<Vec<_>>(), if wrong.len() > 12 { " ..." } else { "" }),
                        json!({"stmt_index": si, "sql": st.sql, "nodes": count, "initiator": initiator, "shape": shape, "reply_len": len, "ok_offsets": wrong})));
                }
            }
        }
        sample = Some(json!({"world": sc.world.describe(), "log": log.iter().skip(1).take(3).collect::<Vec<_>>()}));
        viol
    });
    for mut v in viol {
        let mut o = if ov.is_object() { ov.clone() } else { json!({}) };
        if v.features.iter().any(|f| f == "enumerated") {
            o["enumerate"] = json!(true);
        }
        v.overrides = o;
        out.violations.push(v);
    }
    out.sim_ms = sim_ms;
    out.sample = sample;
    out.log_hash = fnv(log.join("\n").as_bytes());
    out
}

#[derive(Clone, Copy, Debug)]
enum Divergence {
    RenameFile,
    RowGroupSize,
    DropRow,
    AddRow,
    Reencode,
    ExtraFile,
    MissingFile,
    SameLayoutOtherValues,
    /// same names, same row-group row counts, same table total in bytes: the full-size row
    /// groups of each file hold each other's rows, so only the per-split byte sizes move
    PermuteRowGroups,
}

/// C14.
pub fn run_c14(_prop: &str, _tier: Tier, run_seed: u64, ov: &Value) -> RunOut {
    let rng = Rng::new(run_seed);
    let mut out = RunOut::default();
    let mut log: Vec<String> = Vec::new();
    let mut sample = None;
    let mut er = rng.fork(3);
    let (viol, sim_ms) = simulate(1, run_seed, async {
        let mut ov2 = if ov.is_object() { ov.clone() } else { json!({}) };
        if ov2.get("nodes").is_none() {
            ov2["nodes"] = json!(2 + er.usize(3));
        }
        let sc = build_scenario(&rng, &ov2, sqlgen::SCATTER_FAMILIES, 4, 0);
        log.push(sc.world.describe().to_string());
        let n = sc.world.nodes.len();
        let mut viol: Vec<Violation> = Vec::new();
        // Choose the divergent worker and table; build its divergent context.
        let worker = 1 + er.usize(n - 1);
        let ti = er.usize(sc.world.tables.len());
        let t = &sc.world.tables[ti];
        let lay: &ParquetLayout = &sc.world.layouts[ti];
        let kind = *er.pick(&[Divergence::RenameFile, Divergence::RowGroupSize, Divergence::DropRow, Divergence::AddRow, Divergence::Reencode,
                              Divergence::ExtraFile, Divergence::MissingFile, Divergence::SameLayoutOtherValues, Divergence::PermuteRowGroups, Divergence::PermuteRowGroups]);
        let ddir = sc.world.root.join(format!("node{worker}")).join("divergent").join(&t.name);
        let files: Vec<std::path::PathBuf> = match kind {
            Divergence::RenameFile => {
                let mut l = lay.clone();
                l.stem = "other".into();
                datagen::write_parquet(t, &ddir, &l).unwrap()
            }
            Divergence::RowGroupSize => {
                let mut l = lay.clone();
                l.row_group_rows = if lay.row_group_rows > 1 { lay.row_group_rows - 1 } else { 2 };
                datagen::write_parquet(t, &ddir, &l).unwrap()
            }
            Divergence::DropRow => {
                let t2 = if t.rows > 0 { t.restrict(0, t.rows - 1) } else { t.clone() };
                let mut l = lay.clone();
                l.file_cuts = l.file_cuts.iter().map(|c| (*c).min(t2.rows)).collect();
                datagen::write_parquet(&t2, &ddir, &l).unwrap()
            }
            Divergence::AddRow => {
                // duplicate the first row at the end
                let mut t2 = t.clone();
                if t.rows > 0 {
                    let extra = t.restrict(0, 1);
                    for (c, e) in t2.data.iter_mut().zip(extra.data.iter()) {
                        append(c, e);
                    }
                    t2.rows += 1;
                }
                datagen::write_parquet(&t2, &ddir, lay).unwrap()
            }
            Divergence::Reencode => {
                let mut l = lay.clone();
                l.dictionary = !l.dictionary;
                l.stats = if l.stats == 0 { 2 } else { 0 };
                datagen::write_parquet(t, &ddir, &l).unwrap()
            }
            Divergence::ExtraFile => {
                let mut f = datagen::write_parquet(t, &ddir, lay).unwrap();
                let extra = ddir.join("zzz-extra.parquet");
                datagen::write_parquet_file(t, 0, t.rows.min(3), &extra, lay).unwrap();
                f.push(extra);
                f
            }
            Divergence::MissingFile => {
                let mut f = datagen::write_parquet(t, &ddir, lay).unwrap();
                if f.len() > 1 {
                    f.pop();
                }
                f
            }
            Divergence::SameLayoutOtherValues => {
                // same names, same row counts; the footers usually still differ in byte size
                let mut t2 = t.clone();
                if let Some(datagen::ColData::I64(v)) = t2.data.first_mut() {
                    for x in v.iter_mut() {
                        *x = x.map(|y| y + 1);
                    }
                }
                datagen::write_parquet(&t2, &ddir, lay).unwrap()
            }
            Divergence::PermuteRowGroups => {
                // per file: reverse the order of the full-size row groups, keep a short tail in place
                let mut bounds = vec![0usize];
                bounds.extend(lay.file_cuts.iter().cloned());
                bounds.push(t.rows);
                let rg = lay.row_group_rows.max(1);
                let mut ranges: Vec<(usize, usize)> = Vec::new();
                for f in 0..bounds.len() - 1 {
                    let (lo, hi) = (bounds[f], bounds[f + 1]);
                    let full = (hi - lo) / rg;
                    for g in (0..full).rev() {
                        ranges.push((lo + g * rg, lo + (g + 1) * rg));
                    }
                    if lo + full * rg < hi {
                        ranges.push((lo + full * rg, hi));
                    }
                }
                let mut t2 = t.restrict(0, 0);
                for (a, b) in ranges {
                    let piece = t.restrict(a, b);
                    for (c, e) in t2.data.iter_mut().zip(piece.data.iter()) {
                        append(c, e);
                    }
                    t2.rows += b - a;
                }
                datagen::write_parquet(&t2, &ddir, lay).unwrap()
            }
        };
        // Is the difference split-relevant?  Decided from footers the harness reads itself.
        let mut mine: Vec<(String, Vec<(i64, i64)>)> = files.iter().map(footer_truth).collect();
        let mut theirs: Vec<(String, Vec<(i64, i64)>)> = sc.world.nodes[0].files[ti].1.iter().map(footer_truth).collect();
        let strip_empty = |v: &mut Vec<(String, Vec<(i64, i64)>)>| {
            for (_, r) in v.iter_mut() {
                r.retain(|x| x.0 > 0);
            }
            v.retain(|(_, r)| !r.is_empty());
            v.sort();
        };
        // row-group INDEX matters to the digest, so only drop empty row groups when comparing loosely
        let relevant = {
            let (mut a, mut b) = (mine.clone(), theirs.clone());
            a.sort();
            b.sort();
            a != b
        };
        strip_empty(&mut mine);
        strip_empty(&mut theirs);
        let relevant_strict = mine != theirs;
        out.bump(&format!("n.divergent_workers.{:?}", kind));
        log.push(format!("worker={worker} table={} divergence={kind:?} relevant={relevant} strict={relevant_strict}", t.name));
        if !relevant_strict {
            out.bump("probe.divergence_not_split_relevant");
        }
        // The worker's divergent context: same catalog, one table swapped.
        let mut dctx = ExecutionContext::with_config(super::world::make_config());
        for (name, fl) in &sc.world.nodes[worker].files {
            if *name == t.name {
                register(&mut dctx, name, &files).expect("register divergent");
            } else {
                register(&mut dctx, name, fl).expect("register");
            }
        }
        let dctx = Arc::new(dctx);
        let feats = vec![format!("divergence:{kind:?}")];

        // (1) direct fragments with the initiator's digest, shard indices in and out of range
        let init_ctx = &sc.world.nodes[0].ctx;
        for count in [1usize, 2, n, n + 3] {
            let set = match splits_of(init_ctx, &t.name, count) {
                Ok(s) => s,
                Err(_) => continue,
            };
            let digest = set.digest();
            for idx in [0usize, count.saturating_sub(1), count, count + 7, usize::MAX / 2] {
                let req = FragmentRequest { sql: format!("SELECT COUNT(*) AS n FROM {}", t.name), table: t.name.clone(), shard_index: idx, shard_count: count, splits_digest: digest };
                out.bump("n.direct_fragments");
                // identical copy (another healthy node): in range => Ok, out of range => Err
                let healthy = &sc.world.nodes[if worker == 1 && n > 2 { 2 } else { 0 }].ctx;
                let r = execute_fragment(healthy, &req).await;
                if idx < count {
                    if let Err(e) = &r {
                        viol.push(violation("identical-copy-answers", "refused", feats.clone(), format!("identical copy refused shard {idx}/{count}: {e}"), json!({"nodes": n})));
                    }
                } else if r.is_ok() {
                    viol.push(violation("shard-index-in-range", "out-of-range-answered", feats.clone(), format!("shard index {idx} of {count} answered"), json!({"nodes": n})));
                } else {
                    out.bump("probe.out_of_range_refused");
                }
                let r = execute_fragment(&dctx, &req).await;
                // armed: a fragment sent to the divergent copy; fired: the divergence touches
                // what that fragment's digest covers, so a refusal is owed
                out.bump(&format!("fault.diverge_{:?}.armed", kind));
                if relevant_strict {
                    out.bump(&format!("fault.diverge_{:?}.fired", kind));
                    if let Ok((q, _)) = &r {
                        viol.push(violation("divergent-replica-refuses", "fragment-answered", feats.clone(),
                            format!("worker copy of {} differs ({kind:?}) but shard {idx}/{count} answered {} rows", t.name, q.row_count),
                            json!({"nodes": n, "mine": mine, "theirs": theirs})));
                    }
                }
            }
            // shard_count = 0: nothing is stated; only "no panic" is required
            let req0 = FragmentRequest { sql: format!("SELECT COUNT(*) AS n FROM {}", t.name), table: t.name.clone(), shard_index: 0, shard_count: 0, splits_digest: digest };
            let _ = execute_fragment(&dctx, &req0).await;
        }

        // (2) whole queries through the coordinator with the divergent worker in the cluster
        struct Swap<'a> {
            inner: SimTransport<'a>,
            worker_addr: String,
            table: String,
            dctx: Arc<ExecutionContext>,
            hits: Mutex<usize>,
        }
        #[async_trait::async_trait]
        impl<'a> query_engine::distributed::FragmentTransport for Swap<'a> {
            async fn send(&self, address: &str, req: &FragmentRequest) -> query_engine::Result<(Vec<u8>, usize, f64)> {
                if address == self.worker_addr {
                    if req.table == self.table {
                        *self.hits.lock() += 1;
                    }
                    tokio::time::sleep(std::time::Duration::from_millis(3)).await;
                    let (r, _) = execute_fragment(&self.dctx, req).await.map_err(|e| QueryError::Execution(format!("HTTP 400 — {e}")))?;
                    let bytes = query_engine::distributed::coordinator::encode_ipc(&r.schema, &r.batches)?;
                    return Ok((bytes, r.row_count, 0.0));
                }
                self.inner.send(address, req).await
            }
        }
        let swap = Swap { inner: SimTransport::new(&sc.world), worker_addr: sc.world.nodes[worker].address.clone(), table: t.name.clone(), dctx: dctx.clone(), hits: Mutex::new(0) };
        for (si, st) in sc.stmts.iter().enumerate() {
            if !st.tables.contains(&t.name) {
                continue;
            }
            let parts = sc.world.participants(0, n);
            *swap.hits.lock() = 0;
            let got = match execute_any_distributed(init_ctx, &st.sql, &parts, &swap).await {
                Ok(d) => outcome_of(Ok(d.result)),
                Err(e) => outcome_of(Err(e)),
            };
            let hits = *swap.hits.lock();
            log.push(format!("{si} {} hits={hits} got={}", st.sql, got.tag()));
            out.case_hashes.push(fnv(format!("{kind:?}|{}|{hits}|{}", st.family, lay.row_group_rows).as_bytes()) ^ fnv(st.sql.as_bytes()));
            if hits == 0 {
                out.bump("probe.divergent_worker_idle");
                continue;
            }
            // only fragments over the divergent TABLE are covered by the statement
            let sharded_is_t = match plan_distributed(init_ctx, &st.sql) {
                Ok(p) => p.table == t.name,
                Err(_) => plan_gather(init_ctx, &st.sql).map(|g| g.tables.iter().any(|x| x.name == t.name)).unwrap_or(false),
            };
            if relevant_strict && sharded_is_t {
                if let Outcome::Rows(r) = &got {
                    // a gather touches several tables; the worker is only wrong for fragments of `t`
                    viol.push(violation("divergent-replica-refuses", "query-answered", feats.clone(),
                        format!("{}: worker {worker}'s copy of {} differs ({kind:?}), it served {hits} fragment(s), and the query answered {} rows", st.sql, t.name, r.len()),
                        json!({"stmt_index": si, "sql": st.sql, "nodes": n})));
                }
            }
        }
        sample = Some(json!({"world": sc.world.describe(), "divergence": format!("{kind:?}"), "worker": worker, "table": t.name}));
        viol
    });
    for mut v in viol {
        v.overrides = if ov.is_object() { ov.clone() } else { json!({}) };
        out.violations.push(v);
    }
    out.sim_ms = sim_ms;
    out.sample = sample;
    out.log_hash = fnv(log.join("\n").as_bytes());
    let _ = ovu;
    out
}

fn append(c: &mut datagen::ColData, e: &datagen::ColData) {
    use datagen::ColData::*;
    match (c, e) {
        (I64(a), I64(b)) => a.extend(b.iter().cloned()),
        (I32(a), I32(b)) => a.extend(b.iter().cloned()),
        (F64(a), F64(b)) => a.extend(b.iter().cloned()),
        (Str(a), Str(b)) => a.extend(b.iter().cloned()),
        (Date(a), Date(b)) => a.extend(b.iter().cloned()),
        (Bool(a), Bool(b)) => a.extend(b.iter().cloned()),
        _ => {}
    }
}

/// C45: statements on the gather path over multi-table catalogs with same-named columns.
pub fn run_c45(_prop: &str, _tier: Tier, run_seed: u64, ov: &Value) -> RunOut {
    let rng = Rng::new(run_seed);
    let mut out = RunOut::default();
    let mut log: Vec<String> = Vec::new();
    let mut sample = None;
    let mut er = rng.fork(3);
    let (viol, sim_ms) = simulate(1, run_seed, async {
        let fams = [Family::Subquery, Family::Subquery, Family::Cte, Family::SetOp, Family::Distinct, Family::SelfJoin, Family::Window, Family::Join, Family::JoinAgg];
        // the catalog also holds `kw`, a table whose column names are SQL keywords: the SQL
        // the gather path GENERATES for the shards must still name those columns
        let mut ov_kw = if ov.is_object() { ov.clone() } else { json!({}) };
        ov_kw["keyword_table"] = json!(true);
        let sc = build_scenario(&rng, &ov_kw, &fams, 10, 0);
        log.push(sc.world.describe().to_string());
        let n = sc.world.nodes.len();
        let mut viol: Vec<Violation> = Vec::new();
        let transport = SimTransport::new(&sc.world);
        let mut stmts = sc.stmts.clone();
        let only = ovu(ov, "only_stmt");
        // (a shrunk replay names one statement by its index in the full list)
        if only.map(|i| i >= 10).unwrap_or(true) {
            if only.is_some() {
                stmts.clear();
            }
            let n_generated = if only.is_some() { 10 } else { stmts.len() };
            for (xi, sql) in [
                "SELECT COUNT(DISTINCT \"user\") AS n, COUNT(*) AS c FROM kw",
                "SELECT id FROM kw WHERE \"true\" = TRUE UNION SELECT id FROM kw WHERE \"order\" > 12",
                "SELECT DISTINCT \"user\", \"true\" FROM kw WHERE \"order\" < 15",
                "SELECT id, ROW_NUMBER() OVER (PARTITION BY \"user\" ORDER BY id) AS w FROM kw WHERE \"true\" IS NOT NULL",
            ]
            .iter()
            .enumerate()
            {
                if only.map(|i| i == n_generated + xi).unwrap_or(true) {
                    stmts.push(sqlgen::Stmt { sql: sql.to_string(), family: "keyword_columns", order_keys: vec![], tables: vec!["kw".to_string()], features: vec!["keyword_column_names".to_string()] });
                }
            }
        }
        for (si, st) in stmts.iter().enumerate() {
            let count = 1 + er.usize(n);
            let initiator = er.usize(count);
            let base = &sc.world.nodes[initiator].ctx;
            // only statements the exact planner refuses take the gather path
            match plan_distributed(base, &st.sql) {
                Err(QueryError::NotImplemented(_)) => {}
                _ => {
                    out.bump("n.not_a_gather_shape");
                    continue;
                }
            }
            let expect = outcome_of(sc.world.single.sql(&st.sql).await);
            let gp = plan_gather(base, &st.sql);
            let cols: Value = match &gp {
                Ok(g) => json!(g.tables.iter().map(|t| json!({"table": t.name, "columns": t.columns})).collect::<Vec<_>>()),
                Err(e) => json!({"plan_gather_error": e.to_string()}),
            };
            transport.reset();
            let parts = sc.world.participants(initiator, count);
            let got = match execute_any_distributed(base, &st.sql, &parts, &transport).await {
                Ok(d) => outcome_of(Ok(d.result)),
                Err(e) => outcome_of(Err(e)),
            };
            log.push(format!("{si} {} n={count} single={} gathered={} cols={}", st.sql, expect.tag(), got.tag(), cols));
            out.bump(&format!("n.family.{}", st.family));
            if matches!(expect, Outcome::Err { .. }) {
                out.bump("n.single_node_error");
                continue;
            }
            if let Ok(g) = &gp {
                if g.tables.len() > 1 {
                    out.bump("probe.multi_table_gather");
                }
                if g.tables.iter().any(|t| t.columns.is_some()) {
                    out.bump("probe.pruned_gather");
                }
            }
            out.case_hashes.push(fnv(format!("{}|{count}|{}", st.family, cols).as_bytes()) ^ fnv(st.sql.as_bytes()));
            if let Err((sym, d)) = compare(st, &expect, &got) {
                if super::runs::arbiter_blames_single_node(&sc.world, st, &expect, &got).await {
                    out.bump("probe.single_node_parquet_path_disagrees_with_memory_and_cluster");
                    continue;
                }
                let mut f = stmt_features(st, "Gather", &got);
                f.extend(crate::kit::planfeat::plan_features(&sc.world.single, &st.sql));
                viol.push(violation("gathered-run-equals-single-node", &sym, f, format!("{} nodes={count}: {d}", st.sql),
                    json!({"stmt_index": si, "sql": st.sql, "nodes": count, "initiator": initiator, "gathered_columns": cols,
                           "expected": expect.brief(), "observed": got.brief(), "world": sc.world.describe()})));
            }
        }
        sample = Some(json!({"world": sc.world.describe(), "log": log.iter().skip(1).take(3).collect::<Vec<_>>()}));
        viol
    });
    for mut v in viol {
        v.overrides = if ov.is_object() { ov.clone() } else { json!({}) };
        out.violations.push(v);
    }
    out.sim_ms = sim_ms;
    out.sample = sample;
    out.log_hash = fnv(log.join("\n").as_bytes());
    out
}
