//! cluster-sim: N real nodes (real contexts over per-node Parquet copies, real
//! coordinator / planner / shard scan / IPC codec) in one process on a paused
//! single-threaded tokio clock.

pub mod transport;
pub mod wire;
pub mod world;
pub mod faults;
pub mod runs;
pub mod splits;

use crate::kit::canon::{self, Row};
use crate::kit::report::Violation;
use query_engine::{QueryError, QueryResult};
use serde_json::json;
use std::future::Future;

/// Run `f` on a fresh paused current-thread runtime inside a rayon pool of `threads`
/// workers.  Returns the future's output and the simulated milliseconds that elapsed.
pub fn simulate<F, T>(threads: usize, seed: u64, f: F) -> (T, u64)
where
    F: Future<Output = T> + Send,
    T: Send,
{
    let pool = rayon::ThreadPoolBuilder::new().num_threads(threads.max(1)).build().expect("rayon pool");
    query_engine::verif::knobs::set("subquery.single_thread_runtime", 1);
    pool.install(|| {
        let rt = tokio::runtime::Builder::new_current_thread()
            .enable_all()
            .start_paused(true)
            .rng_seed(tokio::runtime::RngSeed::from_bytes(&seed.to_le_bytes()))
            .build()
            .expect("runtime");
        rt.block_on(async {
            let t0 = tokio::time::Instant::now();
            let out = f.await;
            (out, t0.elapsed().as_millis() as u64)
        })
    })
}

#[derive(Clone, Debug)]
pub enum Outcome {
    Rows(Vec<Row>),
    Err { class: &'static str, msg: String },
}

pub fn error_class(e: &QueryError) -> &'static str {
    match e {
        QueryError::Parse(_) => "parse",
        QueryError::Plan(_) | QueryError::Bind(_) | QueryError::Type(_) | QueryError::TableNotFound(_)
        | QueryError::ColumnNotFound(_) | QueryError::InvalidArgument(_) => "bind",
        QueryError::NotImplemented(_) => "not_implemented",
        QueryError::Internal(_) => "internal",
        _ => "execution",
    }
}

pub fn outcome_of(r: Result<QueryResult, QueryError>) -> Outcome {
    match r {
        Ok(q) => Outcome::Rows(canon::rows_of(&q.batches)),
        Err(e) => Outcome::Err { class: error_class(&e), msg: e.to_string() },
    }
}

impl Outcome {
    pub fn tag(&self) -> String {
        match self {
            Outcome::Rows(r) => format!("ok:{}:{:016x}", r.len(), canon::digest(r)),
            Outcome::Err { class, .. } => format!("err:{class}"),
        }
    }
    pub fn brief(&self) -> serde_json::Value {
        match self {
            Outcome::Rows(r) => json!({"ok_rows": r.len(), "first": canon::sample(r, 5)}),
            Outcome::Err { class, msg } => json!({"err": class, "msg": msg.chars().take(300).collect::<String>()}),
        }
    }
}

pub fn violation(clause: &str, symptom: &str, features: Vec<String>, detail: String, context: serde_json::Value) -> Violation {
    Violation { clause: clause.into(), symptom: symptom.into(), features, detail, overrides: serde_json::Value::Null, context }
}

/// Run the coordinator the way the server does: inside a task boundary that turns a
/// panic into a failed query (`query_runtime().spawn(..)` -> `ExecError::TaskFailed`).
pub async fn guarded<F>(f: F) -> Outcome
where
    F: Future<Output = Result<query_engine::distributed::DistributedResult, QueryError>>,
{
    use futures::FutureExt;
    match std::panic::AssertUnwindSafe(f).catch_unwind().await {
        Ok(Ok(d)) => outcome_of(Ok(d.result)),
        Ok(Err(e)) => outcome_of(Err(e)),
        Err(p) => {
            let msg = p.downcast_ref::<String>().cloned().or_else(|| p.downcast_ref::<&str>().map(|s| s.to_string())).unwrap_or_default();
            Outcome::Err { class: "task-panic", msg: format!("query task panicked: {msg}") }
        }
    }
}

/// Await any fallible engine future, turning a panic into an error string.
pub async fn guarded_result<T, F>(f: F) -> Result<T, String>
where
    F: Future<Output = Result<T, QueryError>>,
{
    use futures::FutureExt;
    match std::panic::AssertUnwindSafe(f).catch_unwind().await {
        Ok(Ok(v)) => Ok(v),
        Ok(Err(e)) => Err(e.to_string()),
        Err(p) => Err(format!("panicked: {}", p.downcast_ref::<String>().cloned().or_else(|| p.downcast_ref::<&str>().map(|s| s.to_string())).unwrap_or_default())),
    }
}
