//! The per-property run functions of cluster-sim (transport layer).

use super::transport::{Fault, Planned, SimTransport};
use super::world::{self, World, WorldParams};
use super::{outcome_of, simulate, violation, Outcome};
use crate::kit::canon;
use crate::kit::report::{RunOut, Tier, Violation};
use crate::kit::rng::{fnv, Rng};
use crate::kit::sqlgen::{self, Family, Stmt};
use query_engine::distributed::{execute_any_distributed, plan_distributed};
use serde_json::{json, Value};

fn ov_usize(ov: &Value, k: &str) -> Option<usize> {
    ov.get(k).and_then(|v| v.as_u64()).map(|v| v as usize)
}

pub struct Scenario {
    pub world: World,
    pub stmts: Vec<Stmt>,
    pub threads: usize,
}

pub fn build_scenario(rng: &Rng, ov: &Value, fams: &[Family], n_stmts: usize, same_name_dirs16: u64) -> Scenario {
    let mut wr = rng.fork(1);
    let n_nodes = ov_usize(ov, "nodes").unwrap_or(1 + wr.usize(8));
    let n_tables = 1 + wr.usize(3);
    let max_rows = *wr.pick(&[40usize, 300, 1500, 4000]);
    // cluster-sim pins the engine to ONE rayon worker so a run's event history and its
    // results are exactly repeatable; worker-count dependence is exec-sim's subject (C07)
    let _unused = wr.pick(&[1usize, 1, 2, 4]);
    let threads = 1usize;
    let params = WorldParams {
        n_tables,
        n_nodes,
        max_rows,
        max_files: 4,
        same_name_dirs16,
        row_cap: ov_usize(ov, "row_cap"),
        keyword_table: ov.get("keyword_table").and_then(|v| v.as_bool()).unwrap_or(false),
    };
    let world = world::build(&mut wr, &params);
    let mut sr = rng.fork(2);
    let mut stmts = sqlgen::gen_many(&mut sr, &world.tables, fams, n_stmts);
    if let Some(only) = ov_usize(ov, "only_stmt") {
        if only < stmts.len() {
            stmts = vec![stmts[only].clone()];
        }
    }
    Scenario { world, stmts, threads }
}

pub fn compare(st: &Stmt, expect: &Outcome, got: &Outcome) -> Result<(), (String, String)> {
    match (expect, got) {
        (Outcome::Rows(a), Outcome::Rows(b)) if st.features.iter().any(|f| f == "unordered_page") => {
            // LIMIT/OFFSET without ORDER BY: which rows is unspecified, how many is not
            if a.len() == b.len() {
                Ok(())
            } else {
                Err(("row-count-differs".to_string(), format!("an unordered page of {} rows came back with {} rows", a.len(), b.len())))
            }
        }
        (Outcome::Rows(a), Outcome::Rows(b)) => {
            let r = if st.order_keys.is_empty() { canon::same_multiset(a, b) } else { canon::same_ordered(a, b, &st.order_keys) };
            r.map_err(|d| {
                let sym = if a.len() != b.len() { "row-count-differs" } else if d.starts_with("order") { "order-differs" } else { "rows-differ" };
                (sym.to_string(), d)
            })
        }
        (Outcome::Rows(_), Outcome::Err { class, msg }) => Err((format!("error-instead-of-rows:{class}"), msg.clone())),
        (Outcome::Err { .. }, _) => Ok(()),
    }
}

/// When the cluster and the single node disagree, the in-memory registration of the same
/// rows arbitrates: if the cluster agrees with memory and the single-node Parquet run does
/// not, the defect is in the single node's Parquet path (C04's subject, reported there),
/// not in distribution.
pub async fn arbiter_blames_single_node(world: &World, st: &Stmt, single: &Outcome, cluster: &Outcome) -> bool {
    let mem = outcome_of(world.mem.sql(&st.sql).await);
    if !matches!(mem, Outcome::Rows(_)) {
        return false;
    }
    compare(st, &mem, cluster).is_ok() && compare(st, &mem, single).is_err()
}

/// Shrink candidates shared by the cluster checks: single statement, fewer rows, fewer nodes.
pub fn shrink_candidates(ov: &Value, v: &Violation) -> Vec<Value> {
    let mut out = Vec::new();
    let base = if ov.is_object() { ov.clone() } else { json!({}) };
    if base.get("only_stmt").is_none() {
        if let Some(i) = v.context.get("stmt_index").and_then(|x| x.as_u64()) {
            let mut c = base.clone();
            c["only_stmt"] = json!(i);
            out.push(c);
        }
    }
    let cap = base.get("row_cap").and_then(|x| x.as_u64()).unwrap_or(4000);
    for next in [cap / 8, cap / 2, cap * 3 / 4] {
        if next >= 1 && next < cap {
            let mut c = base.clone();
            c["row_cap"] = json!(next);
            out.push(c);
        }
    }
    if let Some(n) = v.context.get("nodes").and_then(|x| x.as_u64()) {
        let cur = base.get("nodes").and_then(|x| x.as_u64()).unwrap_or(n);
        for next in [2u64, cur.saturating_sub(1)] {
            if next >= 1 && next < cur {
                let mut c = base.clone();
                c["nodes"] = json!(next);
                out.push(c);
            }
        }
    }
    // wire-level offset enumeration: last of all, pin the one offset that failed
    if base.get("only_offset").is_none() {
        if let (Some(k), Some(kind)) = (v.context.get("offset").and_then(|x| x.as_u64()), v.context.get("kind").and_then(|x| x.as_str())) {
            let mut c = base.clone();
            c["only_offset"] = json!(k);
            c["only_kind"] = json!(kind);
            if let Some(r) = v.context.get("region").and_then(|x| x.as_str()) {
                c["only_region"] = json!(r);
            }
            out.push(c);
        }
    }
    out
}

/// A stable token for an error message: prefixes added by the partition driver removed,
/// digits folded, truncated.
pub fn err_token(msg: &str) -> String {
    let mut m = msg;
    for p in ["Execution error: ", "Not implemented: ", "Internal error: "] {
        m = m.strip_prefix(p).unwrap_or(m);
    }
    if let Some(i) = m.find("failed: ") {
        if m.starts_with("Partition ") {
            m = &m[i + 8..];
        }
    }
    for p in ["Execution error: ", "Not implemented: ", "Internal error: "] {
        m = m.strip_prefix(p).unwrap_or(m);
    }
    let folded: String = m.chars().map(|c| if c.is_ascii_digit() { '#' } else { c }).collect();
    folded.chars().take(70).collect()
}

/// Plan features of the statement as the SHARDS see it: the partial statement of an exact
/// plan, optimized in every shard context of the given cluster size. A statistics-driven
/// rewrite (GroupKeyReduction) can fire on a shard -- whose row count is a fraction of the
/// table's -- without firing on the whole table, so a finding keyed on that rewrite has to
/// be looked for here too.
pub fn shard_plan_features(base: &query_engine::ExecutionContext, sql: &str, count: usize) -> Vec<String> {
    use query_engine::distributed::coordinator::shard_context;
    use query_engine::distributed::{assign_lpt, splits_of};
    let mut out: Vec<String> = Vec::new();
    let Ok(plan) = plan_distributed(base, sql) else { return out };
    let Ok(set) = splits_of(base, &plan.table, count) else { return out };
    let assignment = assign_lpt(&set, count);
    for idx in 0..count {
        if let Ok((ctx, _)) = shard_context(base, &plan.table, &set, &assignment, idx) {
            for f in crate::kit::planfeat::plan_features(&ctx, &plan.partial_sql) {
                if !out.contains(&f) {
                    out.push(f);
                }
            }
        }
    }
    out
}

pub fn stmt_features(st: &Stmt, shape: &str, got: &Outcome) -> Vec<String> {
    let mut f = vec![format!("family:{}", st.family), format!("shape:{shape}")];
    f.extend(st.features.iter().cloned());
    if let Outcome::Err { msg, .. } = got {
        f.push(format!("err:{}", err_token(msg)));
    }
    f
}

/// C09 — fault-free: forced-distributed == single node.
pub fn run_c09(_prop: &str, _tier: Tier, run_seed: u64, ov: &Value) -> RunOut {
    let rng = Rng::new(run_seed);
    let mut out = RunOut::default();
    let mut log: Vec<String> = Vec::new();
    let mut er = rng.fork(3);
    let mut sample = None;
    let (viol, sim_ms) = simulate(1, run_seed, async {
        let sc = build_scenario(&rng, ov, sqlgen::ALL_FAMILIES, 10, 0);
        log.push(sc.world.describe().to_string());
        let n = sc.world.nodes.len();
        let mut viol = Vec::new();
        let transport = SimTransport::new(&sc.world);
        for (si, st) in sc.stmts.iter().enumerate() {
            let count = 1 + er.usize(n);
            let initiator = er.usize(count);
            let expect = outcome_of(sc.world.single.sql(&st.sql).await);
            transport.reset();
            let parts = sc.world.participants(initiator, count);
            let base = &sc.world.nodes[initiator].ctx;
            let shape = match plan_distributed(base, &st.sql) {
                Ok(p) => format!("{:?}", p.shape),
                Err(query_engine::QueryError::NotImplemented(_)) => "Gather".to_string(),
                Err(_) => "PlanError".to_string(),
            };
            let got = match execute_any_distributed(base, &st.sql, &parts, &transport).await {
                Ok(d) => outcome_of(Ok(d.result)),
                Err(e) => outcome_of(Err(e)),
            };
            let sends = transport.state.lock().log.len();
            log.push(format!("{si} {} n={count} init={initiator} shape={shape} single={} dist={} sends={sends}", st.sql, expect.tag(), got.tag()));
            out.bump(&format!("n.shape.{shape}"));
            out.bump(&format!("n.family.{}", st.family));
            if matches!(expect, Outcome::Err { .. }) {
                out.bump("n.single_node_error");
                if matches!(got, Outcome::Rows(_)) {
                    out.bump("probe.single_err_dist_ok");
                }
                continue;
            }
            if let Outcome::Err { class: "not_implemented", .. } = &got {
                out.bump("probe.refused_not_implemented");
                continue;
            }
            if sends + 1 < count {
                out.bump("probe.idle_node");
            }
            if let Outcome::Rows(r) = &expect {
                if r.is_empty() {
                    out.bump("probe.empty_answer");
                }
            }
            out.case_hashes.push(fnv(format!("{shape}|{}|{count}|{}", st.family, sends).as_bytes()) ^ fnv(st.sql.as_bytes()));
            if let Err((sym, d)) = compare(st, &expect, &got) {
                if arbiter_blames_single_node(&sc.world, st, &expect, &got).await {
                    out.bump("probe.single_node_parquet_path_disagrees_with_memory_and_cluster");
                    continue;
                }
                viol.push(violation(
                    "distributed-equals-single-node",
                    &sym,
                    {
                        let mut f = stmt_features(st, &shape, &got);
                        f.extend(crate::kit::planfeat::plan_features(&sc.world.single, &st.sql));
                        for x in shard_plan_features(base, &st.sql, count) {
                            if !f.contains(&x) {
                                f.push(x);
                            }
                        }
                        f
                    },
                    format!("{} [{}] nodes={count} initiator={initiator}: {d}", st.sql, shape),
                    json!({"stmt_index": si, "sql": st.sql, "nodes": count, "initiator": initiator, "shape": shape,
                           "expected": expect.brief(), "observed": got.brief(), "world": sc.world.describe()}),
                ));
            }
        }
        sample = Some(json!({"world": sc.world.describe(), "log": log.iter().skip(1).take(4).collect::<Vec<_>>()}));
        viol
    });
    for mut v in viol {
        v.overrides = if ov.is_object() { ov.clone() } else { json!({}) };
        out.violations.push(v);
    }
    out.sim_ms = sim_ms;
    out.sample = sample;
    out.log_hash = fnv(log.join("\n").as_bytes());
    let _ = (Fault::Duplicate, Planned::TruncateBack(0));
    out
}

/// Debugging aid: rebuild the scenario of a replay file and run one SQL text on the
/// single-node Parquet context, on a one-batch in-memory registration of the same rows,
/// and forced-distributed; print all three.
pub fn debug_sql(run_seed: u64, ov: &Value, sql: &str, nodes: usize, initiator: usize) {
    let rng = Rng::new(run_seed);
    let ((), _) = simulate(1, run_seed, async {
        let sc = build_scenario(&rng, ov, sqlgen::ALL_FAMILIES, 10, 0);
        println!("{}", sc.world.describe());
        let mut mem = query_engine::ExecutionContext::new();
        for t in &sc.world.tables {
            mem.register_table(&t.name, t.schema(), t.one_batch());
        }
        let show = |name: &str, o: &Outcome| match o {
            Outcome::Rows(r) => {
                let mut lines: Vec<String> = r.iter().map(canon::render_row).collect();
                lines.sort();
                println!("== {name}: {} rows", r.len());
                for l in lines.iter().take(60) {
                    println!("   {l}");
                }
            }
            Outcome::Err { class, msg } => println!("== {name}: ERR {class}: {msg}"),
        };
        for (n, c) in [("memory", &mem), ("single", &sc.world.single)] {
            match c.physical_plan(sql) {
                Ok(p) => println!("physical[{n}]:\n{}", query_engine::physical::display_plan(p.as_ref(), 1)),
                Err(e) => println!("physical[{n}]: {e}"),
            }
        }
        show("memory(1 batch)", &outcome_of(mem.sql(sql).await));
        show("single(parquet)", &outcome_of(sc.world.single.sql(sql).await));
        let n = nodes.min(sc.world.nodes.len());
        let transport = SimTransport::new(&sc.world);
        let parts = sc.world.participants(initiator.min(n - 1), n);
        let base = &sc.world.nodes[initiator.min(n - 1)].ctx;
        match plan_distributed(base, sql) {
            Ok(p) => println!("plan: {:?}\n  partial: {}\n  final: {:?}", p.shape, p.partial_sql, p.final_sql),
            Err(e) => println!("plan_distributed: {e}"),
        }
        let got = match execute_any_distributed(base, sql, &parts, &transport).await {
            Ok(d) => outcome_of(Ok(d.result)),
            Err(e) => outcome_of(Err(e)),
        };
        show("distributed", &got);
    });
}
