//! C11 (split enumeration invariants) and C13 (shard scans reassemble the table).

use super::runs::{build_scenario, compare, shrink_candidates, stmt_features};
use super::{outcome_of, simulate, violation, Outcome};
use crate::kit::canon;
use crate::kit::report::{RunOut, Tier, Violation};
use crate::kit::rng::{fnv, Rng};
use crate::kit::sqlgen::{self, Family, Stmt};
use parquet::file::reader::{FileReader, SerializedFileReader};
use query_engine::distributed::coordinator::shard_context;
use query_engine::distributed::{assign_lpt, enumerate_parquet, splits_of};
use serde_json::{json, Value};
use std::collections::BTreeMap;
use std::path::PathBuf;

pub use super::runs::shrink_candidates as cands;

/// (file name, [(rows, total_byte_size)]) read by the harness from the footer, the truth
/// the split invariants are checked against.
pub fn footer_truth(path: &PathBuf) -> (String, Vec<(i64, i64)>) {
    let f = std::fs::File::open(path).expect("open parquet");
    let r = SerializedFileReader::new(f).expect("parquet reader");
    let md = r.metadata();
    let rgs = md.row_groups().iter().map(|rg| (rg.num_rows(), rg.total_byte_size())).collect();
    (path.file_name().unwrap().to_string_lossy().into_owned(), rgs)
}

/// C11: for every table of the world and node counts 1..64: tiling, byte conservation,
/// independence from mount and listing order, sensitivity to a changed attribute.
pub fn run_c11(_prop: &str, _tier: Tier, run_seed: u64, ov: &Value) -> RunOut {
    let rng = Rng::new(run_seed);
    let mut out = RunOut::default();
    let mut log: Vec<String> = Vec::new();
    let mut sample = None;
    let mut pr = rng.fork(5);
    let (viol, sim_ms) = simulate(1, run_seed, async {
        // 1 in 4 worlds places same-named files in different directories
        let sc = build_scenario(&rng, ov, &[Family::Filter], 1, 4);
        log.push(sc.world.describe().to_string());
        let mut viol: Vec<Violation> = Vec::new();
        for (ti, t) in sc.world.tables.iter().enumerate() {
            let lay = &sc.world.layouts[ti];
            let files0 = &sc.world.nodes[0].files[ti].1;
            let truth: Vec<(String, Vec<(i64, i64)>)> = files0.iter().map(footer_truth).collect();
            let total_rows: i64 = truth.iter().flat_map(|(_, r)| r.iter().map(|x| x.0)).sum();
            let total_bytes: i64 = truth.iter().flat_map(|(_, r)| r.iter().filter(|x| x.0 > 0).map(|x| x.1.max(0))).sum();
            let mut feats = vec![format!("same_name_dirs:{}", lay.same_name_dirs)];
            if !lay.empty_row_groups.is_empty() {
                feats.push("layout:empty_row_groups".to_string());
                out.bump("probe.empty_row_groups_in_footer");
            }
            if lay.same_name_dirs && files0.len() > 1 {
                feats.push("equal_file_names".to_string());
                out.bump("probe.equal_file_names");
            }
            let ns: Vec<usize> = {
                let mut v = vec![1usize, 2, 3, 1 + pr.usize(8), 1 + pr.usize(64), 64];
                v.dedup();
                v
            };
            for &n in &ns {
                let set = match enumerate_parquet(&t.name, files0, n) {
                    Ok(s) => s,
                    Err(e) => {
                        viol.push(violation("splits-enumerate", "error", feats.clone(), format!("enumerate_parquet failed: {e}"), json!({"table": t.name, "n": n})));
                        continue;
                    }
                };
                out.case_hashes.push(fnv(format!("{}|{}|{}|{}", files0.len(), lay.row_group_rows, t.rows, n).as_bytes()));
                if set.splits.len() > truth.iter().map(|(_, r)| r.len()).sum::<usize>() {
                    out.bump("probe.sub_row_group_splits");
                }
                // conservation
                if set.total_rows != total_rows || set.splits.iter().map(|s| s.num_rows).sum::<i64>() != total_rows {
                    viol.push(violation("splits-cover-rows", "row-sum-differs", feats.clone(),
                        format!("table {} n={n}: split rows {} / total_rows {} vs footer {}", t.name, set.splits.iter().map(|s| s.num_rows).sum::<i64>(), set.total_rows, total_rows),
                        json!({"table": t.name, "n": n})));
                }
                let sb: u64 = set.splits.iter().map(|s| s.bytes).sum();
                if sb != total_bytes as u64 || set.total_bytes != total_bytes as u64 {
                    viol.push(violation("splits-byte-sum", "byte-sum-differs", feats.clone(),
                        format!("table {} n={n}: split bytes {} / total_bytes {} vs footer {}", t.name, sb, set.total_bytes, total_bytes),
                        json!({"table": t.name, "n": n})));
                }
                // tiling per (path, row group): contiguous from 0, non-overlapping, covers footer rows
                let mut per: BTreeMap<(PathBuf, usize), Vec<(i64, i64)>> = BTreeMap::new();
                for s in &set.splits {
                    per.entry((s.path.clone(), s.row_group)).or_default().push((s.row_offset, s.num_rows));
                }
                for (fi, f) in files0.iter().enumerate() {
                    for (rg, (rows, _)) in truth[fi].1.iter().enumerate() {
                        let pieces = per.remove(&(f.clone(), rg)).unwrap_or_default();
                        if *rows <= 0 {
                            if !pieces.is_empty() {
                                viol.push(violation("splits-tile", "split-of-empty-row-group", feats.clone(), format!("{}[{rg}] has no rows but {} splits", truth[fi].0, pieces.len()), json!({"n": n})));
                            }
                            out.bump("probe.empty_row_group");
                            continue;
                        }
                        let mut p = pieces.clone();
                        p.sort();
                        let mut at = 0i64;
                        let mut ok = true;
                        for (off, nr) in &p {
                            if *off != at || *nr <= 0 {
                                ok = false;
                            }
                            at = off + nr;
                        }
                        if !ok || at != *rows {
                            viol.push(violation("splits-tile", "not-a-tiling", feats.clone(),
                                format!("table {} n={n}: {}[{rg}] rows={rows} pieces={:?}", t.name, truth[fi].0, p), json!({"table": t.name, "n": n})));
                        }
                    }
                }
                if !per.is_empty() {
                    viol.push(violation("splits-tile", "split-of-unknown-row-group", feats.clone(), format!("splits refer to row groups not in any footer: {:?}", per.keys().collect::<Vec<_>>()), json!({"n": n})));
                }
                // independence from listing order (same node) and from mount (other nodes)
                let d0 = set.digest();
                let key = |s: &query_engine::distributed::Split| (s.file.clone(), s.row_group, s.row_offset, s.num_rows, s.bytes);
                let mut perm = files0.clone();
                pr.shuffle(&mut perm);
                perm.reverse();
                if let Ok(s2) = enumerate_parquet(&t.name, &perm, n) {
                    let same_list = s2.splits.iter().map(key).collect::<Vec<_>>() == set.splits.iter().map(key).collect::<Vec<_>>();
                    let same_paths = s2.splits.iter().map(|s| &s.path).collect::<Vec<_>>() == set.splits.iter().map(|s| &s.path).collect::<Vec<_>>();
                    if s2.digest() != d0 || !same_list {
                        viol.push(violation("splits-order-independent", "digest-depends-on-file-order", feats.clone(),
                            format!("table {} n={n}: digest {:#x} vs {:#x} after permuting the file list", t.name, d0, s2.digest()), json!({"table": t.name, "n": n})));
                    } else if !same_paths {
                        viol.push(violation("splits-order-independent", "equal-digest-different-files", feats.clone(),
                            format!("table {} n={n}: permuting the file list keeps the digest but maps splits to different files", t.name), json!({"table": t.name, "n": n})));
                    }
                }
                for node in sc.world.nodes.iter().skip(1) {
                    if let Ok(s2) = enumerate_parquet(&t.name, &node.files[ti].1, n) {
                        out.bump("n.cross_node_comparisons");
                        let same_list = s2.splits.iter().map(key).collect::<Vec<_>>() == set.splits.iter().map(key).collect::<Vec<_>>();
                        // a split must point at the copy of the SAME file on the other node
                        let rel = |p: &PathBuf, root: &PathBuf| p.strip_prefix(root).ok().map(|x| x.to_path_buf());
                        let root0 = files0[0].parent().unwrap().to_path_buf();
                        let rootn = node.files[ti].1[0].parent().unwrap().to_path_buf();
                        let _ = (rel(&files0[0], &root0), rel(&node.files[ti].1[0], &rootn));
                        if s2.digest() != d0 || !same_list {
                            viol.push(violation("splits-mount-independent", "digest-depends-on-mount-or-order", feats.clone(),
                                format!("table {} n={n}: node {} computes digest {:#x}, node 0 {:#x} over identical copies", t.name, node.node_id, s2.digest(), d0), json!({"table": t.name, "n": n})));
                        }
                    }
                }
            }
        }
        // nested listings: the same files fanned out over a few directories (several files
        // per directory, optionally one file directly under the table root), under two
        // mounts, listed in several orders — what a partitioned table directory looks like
        let mut nr = rng.fork(0x4e57);
        for (ti, t) in sc.world.tables.iter().enumerate() {
            let files0 = &sc.world.nodes[0].files[ti].1;
            if files0.len() < 3 {
                continue;
            }
            out.bump("probe.nested_listing_tables");
            let k = 2 + nr.usize(2.min(files0.len() - 2));
            let root_file = nr.chance(1, 3);
            let mounts = [crate::cluster::world::fresh_dir("c11nest-a"), crate::cluster::world::fresh_dir("c11nest-b").join("deeper").join("mount")];
            let mut listings: Vec<Vec<PathBuf>> = Vec::new();
            for m in &mounts {
                let mut l = Vec::new();
                for (i, f) in files0.iter().enumerate() {
                    let d = if root_file && i == files0.len() - 1 { m.join(&t.name) } else { m.join(&t.name).join(format!("d={}", i % k)) };
                    std::fs::create_dir_all(&d).expect("mkdir");
                    let to = d.join(format!("part-{i:03}.parquet"));
                    if std::fs::hard_link(f, &to).is_err() {
                        std::fs::copy(f, &to).expect("copy");
                    }
                    l.push(to);
                }
                listings.push(l);
            }
            let n = 1 + nr.usize(8);
            let key = |s: &query_engine::distributed::Split| (s.file.clone(), s.row_group, s.row_offset, s.num_rows, s.bytes);
            let feats = vec!["layout:nested_dirs".to_string(), format!("root_file:{root_file}")];
            if let Ok(reference) = enumerate_parquet(&t.name, &listings[0], n) {
                let rel0: Vec<PathBuf> = reference.splits.iter().map(|s| s.path.strip_prefix(&mounts[0]).unwrap().to_path_buf()).collect();
                for (mi, l) in listings.iter().enumerate() {
                    for round in 0..6 {
                        let mut perm = l.clone();
                        nr.shuffle(&mut perm);
                        if round == 0 {
                            // two files of one directory at the two ends of the listing
                            perm.sort();
                            let last = perm.len() - 1;
                            if let Some(j) = (1..perm.len()).find(|&j| perm[j].parent() == perm[0].parent()) {
                                perm.swap(j, last);
                            }
                        }
                        out.bump("n.nested_listing_orders");
                        match enumerate_parquet(&t.name, &perm, n) {
                            Ok(s2) => {
                                let same_list = s2.splits.iter().map(key).collect::<Vec<_>>() == reference.splits.iter().map(key).collect::<Vec<_>>();
                                let rel: Vec<PathBuf> = s2.splits.iter().map(|s| s.path.strip_prefix(&mounts[mi]).unwrap().to_path_buf()).collect();
                                if s2.digest() != reference.digest() || !same_list {
                                    viol.push(violation(if mi == 0 { "splits-order-independent" } else { "splits-mount-independent" }, "digest-depends-on-file-order", feats.clone(),
                                        format!("table {} n={n}: digest {:#x} vs {:#x} for another listing order of the same nested files (mount {mi})", t.name, reference.digest(), s2.digest()),
                                        json!({"table": t.name, "n": n, "listing": perm.iter().map(|p| p.strip_prefix(&mounts[mi]).unwrap().display().to_string()).collect::<Vec<_>>()})));
                                    break;
                                } else if rel != rel0 {
                                    viol.push(violation("splits-order-independent", "equal-digest-different-files", feats.clone(),
                                        format!("table {} n={n}: another listing order keeps the digest but maps splits to different files", t.name), json!({"table": t.name, "n": n})));
                                    break;
                                }
                            }
                            Err(e) => {
                                viol.push(violation("splits-enumerate", "error", feats.clone(), format!("enumerate_parquet failed on a nested listing: {e}"), json!({"table": t.name, "n": n})));
                                break;
                            }
                        }
                    }
                }
            }
            let _ = std::fs::remove_dir_all(&mounts[0]);
            let _ = std::fs::remove_dir_all(mounts[1].parent().unwrap().parent().unwrap());
        }
        sample = Some(json!({"world": sc.world.describe()}));
        viol
    });
    for mut v in viol {
        v.overrides = if ov.is_object() { ov.clone() } else { json!({}) };
        out.violations.push(v);
    }
    out.sim_ms = sim_ms;
    out.sample = sample;
    out.log_hash = fnv(log.join("\n").as_bytes()) ^ fnv(format!("{:?}", out.counters).as_bytes());
    out
}

/// C13: the union over shard contexts of `SELECT .. FROM t [WHERE p]` equals the unsharded
/// statement; shards expose no whole files; COUNT(*) over a shard = its assigned rows.
pub fn run_c13(_prop: &str, _tier: Tier, run_seed: u64, ov: &Value) -> RunOut {
    let rng = Rng::new(run_seed);
    let mut out = RunOut::default();
    let mut log: Vec<String> = Vec::new();
    let mut sample = None;
    let mut er = rng.fork(3);
    let (viol, sim_ms) = simulate(1, run_seed, async {
        let sc = build_scenario(&rng, ov, &[Family::Filter, Family::Filter, Family::GlobalAgg], 6, 2);
        log.push(sc.world.describe().to_string());
        let mut viol: Vec<Violation> = Vec::new();
        let nn = sc.world.nodes.len();
        for (si, st) in sc.stmts.iter().enumerate() {
            let table = st.tables[0].clone();
            let ti = sc.world.tables.iter().position(|t| t.name == table).unwrap();
            let lay = &sc.world.layouts[ti];
            let mut feats = vec![format!("family:{}", st.family)];
            if !lay.empty_row_groups.is_empty() {
                feats.push("layout:empty_row_groups".to_string());
            }
            if lay.same_name_dirs && lay.file_cuts.len() > 0 {
                feats.push("equal_file_names".to_string());
            }
            // the statement to reassemble: a plain select (filter family) or COUNT(*)
            let is_count = st.family != "filter";
            // an unordered page (LIMIT without ORDER BY) means nothing per shard: drop it
            let base_sql = match st.sql.find(" LIMIT ") {
                Some(i) if !st.sql.contains(" ORDER BY ") => st.sql[..i].to_string(),
                _ => st.sql.clone(),
            };
            let sql = if is_count {
                let wh = base_sql.find(" WHERE ").map(|i| base_sql[i..].to_string()).unwrap_or_default();
                format!("SELECT COUNT(*) AS n FROM {table}{wh}")
            } else {
                base_sql.clone()
            };
            let expect = outcome_of(sc.world.single.sql(&sql).await);
            let n = 1 + er.usize(8);
            let mut union_rows = Vec::new();
            let mut count_sum: i128 = 0;
            let mut failed = None;
            let mut assigned_total = 0i64;
            for idx in 0..n {
                // shard idx is built by the node that would own it (its own mount / order)
                let base = &sc.world.nodes[idx % nn].ctx;
                let set = match splits_of(base, &table, n) {
                    Ok(s) => s,
                    Err(e) => {
                        failed = Some(format!("splits_of: {e}"));
                        break;
                    }
                };
                let assignment = assign_lpt(&set, n);
                let (ctx, stats) = match shard_context(base, &table, &set, &assignment, idx) {
                    Ok(x) => x,
                    Err(e) => {
                        failed = Some(format!("shard_context: {e}"));
                        break;
                    }
                };
                assigned_total += stats.rows;
                if stats.splits == 0 {
                    out.bump("probe.empty_shard");
                }
                if let Some(p) = ctx.table_provider(&table) {
                    if p.parquet_files().is_some() {
                        viol.push(violation("shard-hides-files", "parquet_files-exposed", feats.clone(), format!("shard {idx}/{n} of {table} exposes parquet_files()"), json!({"stmt_index": si})));
                    }
                }
                // COUNT(*) over the shard == assigned rows
                match outcome_of(ctx.sql(&format!("SELECT COUNT(*) AS n FROM {table}")).await) {
                    Outcome::Rows(r) => {
                        let c = match r.first().and_then(|row| row.first()) {
                            Some(canon::Cell::Int(i)) => *i,
                            _ => -1,
                        };
                        if c != stats.rows as i128 {
                            viol.push(violation("shard-count-equals-assignment", "count-differs", feats.clone(),
                                format!("shard {idx}/{n} of {table}: COUNT(*)={c} but assigned rows={}", stats.rows), json!({"stmt_index": si, "nodes": n})));
                        }
                    }
                    Outcome::Err { msg, .. } => {
                        viol.push(violation("shard-count-equals-assignment", "error", feats.clone(), format!("shard {idx}/{n} COUNT(*) failed: {msg}"), json!({"stmt_index": si, "nodes": n})));
                    }
                }
                match outcome_of(ctx.sql(&sql).await) {
                    Outcome::Rows(r) => {
                        if is_count {
                            if let Some(canon::Cell::Int(i)) = r.first().and_then(|row| row.first()) {
                                count_sum += *i;
                            }
                        } else {
                            union_rows.extend(r);
                        }
                    }
                    Outcome::Err { msg, class } => {
                        failed = Some(format!("shard {idx}/{n}: {class}: {msg}"));
                        break;
                    }
                }
            }
            let got = match failed {
                Some(m) => Outcome::Err { class: "execution", msg: m },
                None if is_count => Outcome::Rows(vec![vec![canon::Cell::Int(count_sum)]]),
                None => Outcome::Rows(union_rows),
            };
            log.push(format!("{si} {sql} n={n} expect={} got={} assigned={assigned_total}", expect.tag(), got.tag()));
            if matches!(expect, Outcome::Err { .. }) {
                out.bump("n.single_node_error");
                continue;
            }
            if sql.contains(" WHERE ") {
                out.bump("probe.filtered_shard_scan");
            }
            out.case_hashes.push(fnv(format!("{sql}|{n}|{}", lay.row_group_rows).as_bytes()));
            let plain = Stmt { sql: sql.clone(), family: st.family, order_keys: vec![], tables: st.tables.clone(), features: vec![] };
            if let Err((sym, d)) = compare(&plain, &expect, &got) {
                let mut f = feats.clone();
                f.extend(stmt_features(&plain, "shards", &got).into_iter().skip(1));
                viol.push(violation("shards-reassemble-table", &sym, f, format!("{sql} over {n} shards: {d}"),
                    json!({"stmt_index": si, "sql": sql, "nodes": n, "expected": expect.brief(), "observed": got.brief(), "world": sc.world.describe()})));
            }
        }
        sample = Some(json!({"world": sc.world.describe(), "log": log.iter().skip(1).take(3).collect::<Vec<_>>()}));
        viol
    });
    for mut v in viol {
        v.overrides = if ov.is_object() { ov.clone() } else { json!({}) };
        out.violations.push(v);
    }
    out.sim_ms = sim_ms;
    out.sample = sample;
    out.log_hash = fnv(log.join("\n").as_bytes());
    let _ = (sqlgen::ALL_FAMILIES, shrink_candidates);
    out
}
