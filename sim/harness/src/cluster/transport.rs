//! Simulated fragment transport: the coordinator's `FragmentTransport` seam, served by
//! the target node's real `execute_fragment` + `encode_ipc`, with a per-send fault plan
//! and simulated latency on the paused clock.

use super::world::World;
use parking_lot::Mutex;
use query_engine::distributed::coordinator::encode_ipc;
use query_engine::distributed::{execute_fragment, FragmentRequest, FragmentTransport};
use query_engine::{QueryError, Result};
use std::collections::BTreeMap;
use std::time::Duration;

#[derive(Clone, Debug, PartialEq)]
pub enum Fault {
    /// connection refused / reset / timeout / HTTP status: the transport reports an error
    TransportError(&'static str),
    /// the reply is cut after `at` bytes and delivered as if complete
    Truncate { at: usize },
    /// one byte of the reply is xor-ed with `mask`
    Flip { at: usize, mask: u8 },
    /// the request is delivered twice; the second answer is returned
    Duplicate,
    /// the fragment is executed on a node whose digest differs (forged digest)
    ForgeDigest,
    /// extra simulated latency in ms
    Delay(u64),
}

impl Fault {
    pub fn kind(&self) -> &'static str {
        match self {
            Fault::TransportError(k) => k,
            Fault::Truncate { .. } => "truncate",
            Fault::Flip { .. } => "flip",
            Fault::Duplicate => "duplicate",
            Fault::ForgeDigest => "forge_digest",
            Fault::Delay(_) => "delay",
        }
    }
}

/// How to choose the cut / flip offset once the reply length is known.
#[derive(Clone, Debug)]
pub enum Planned {
    Fixed(Fault),
    /// truncate at (len * num / den), or at len - back when back > 0
    TruncateFrac { num: u64, den: u64 },
    TruncateBack(usize),
    FlipFrac { num: u64, den: u64, mask: u8 },
}

#[derive(Clone, Debug)]
pub struct SendRecord {
    pub address: String,
    pub table: String,
    pub shard_index: usize,
    pub reply_len: usize,
    pub fault: Option<Fault>,
    pub outcome: &'static str,
}

#[derive(Default)]
pub struct TransportState {
    /// fault plan keyed by (address, nth send to that address within this statement)
    pub plan: BTreeMap<(String, usize), Planned>,
    pub sends: BTreeMap<String, usize>,
    pub log: Vec<SendRecord>,
    /// raw (pre-fault) reply bytes of every send, for the truncation enumerator
    pub replies: Vec<(String, FragmentRequest, Vec<u8>, usize)>,
    pub base_latency_ms: u64,
    pub keep_replies: bool,
}

pub struct SimTransport<'w> {
    pub world: &'w World,
    pub state: Mutex<TransportState>,
}

impl<'w> SimTransport<'w> {
    pub fn new(world: &'w World) -> Self {
        SimTransport { world, state: Mutex::new(TransportState { base_latency_ms: 2, ..Default::default() }) }
    }
    pub fn reset(&self) {
        let mut s = self.state.lock();
        s.plan.clear();
        s.sends.clear();
        s.log.clear();
        s.replies.clear();
    }
}

pub fn resolve(p: &Planned, len: usize) -> Fault {
    match p {
        Planned::Fixed(f) => f.clone(),
        Planned::TruncateFrac { num, den } => Fault::Truncate { at: ((len as u64 * num) / den.max(&1)) as usize },
        Planned::TruncateBack(b) => Fault::Truncate { at: len.saturating_sub(*b) },
        Planned::FlipFrac { num, den, mask } => {
            Fault::Flip { at: (((len as u64).saturating_sub(1) * num) / den.max(&1)) as usize, mask: *mask }
        }
    }
}

#[async_trait::async_trait]
impl<'w> FragmentTransport for SimTransport<'w> {
    async fn send(&self, address: &str, req: &FragmentRequest) -> Result<(Vec<u8>, usize, f64)> {
        let (planned, latency, keep) = {
            let mut s = self.state.lock();
            let n = *s.sends.get(address).unwrap_or(&0);
            s.sends.insert(address.to_string(), n + 1);
            (s.plan.get(&(address.to_string(), n)).cloned(), s.base_latency_ms, s.keep_replies)
        };
        // the request really crosses a serialisation boundary
        let wire = serde_json::to_vec(req).map_err(|e| QueryError::Execution(e.to_string()))?;
        let mut req2: FragmentRequest =
            serde_json::from_slice(&wire).map_err(|e| QueryError::Execution(e.to_string()))?;
        let mut extra = 0;
        if let Some(Planned::Fixed(Fault::Delay(ms))) = &planned {
            extra = *ms;
        }
        tokio::time::sleep(Duration::from_millis(latency + extra)).await;

        let record = |fault: Option<Fault>, len: usize, outcome: &'static str| {
            self.state.lock().log.push(SendRecord {
                address: address.to_string(),
                table: req.table.clone(),
                shard_index: req.shard_index,
                reply_len: len,
                fault,
                outcome,
            });
        };

        if let Some(Planned::Fixed(Fault::TransportError(kind))) = &planned {
            record(Some(Fault::TransportError(kind)), 0, "transport-error");
            return Err(QueryError::Execution(format!("simulated {kind}")));
        }
        let Some(idx) = self.world.node_by_address(address) else {
            record(None, 0, "unknown-address");
            return Err(QueryError::Execution(format!("connection refused: no node at {address}")));
        };
        if let Some(Planned::Fixed(Fault::ForgeDigest)) = &planned {
            req2.splits_digest ^= 0x5bd1e995;
        }
        let node = &self.world.nodes[idx];
        if let Some(Planned::Fixed(Fault::Duplicate)) = &planned {
            let _ = execute_fragment(&node.ctx, &req2).await;
        }
        let (r, _stats) = match execute_fragment(&node.ctx, &req2).await {
            Ok(x) => x,
            Err(e) => {
                record(planned.as_ref().map(|p| resolve(p, 0)), 0, "fragment-error");
                // what HttpTransport would surface for the peer's 400
                return Err(QueryError::Execution(format!("HTTP 400 — {e}")));
            }
        };
        let mut bytes = encode_ipc(&r.schema, &r.batches)?;
        let rows = r.row_count;
        if keep {
            self.state.lock().replies.push((address.to_string(), req.clone(), bytes.clone(), rows));
        }
        tokio::time::sleep(Duration::from_millis(latency)).await;
        let fault = planned.as_ref().map(|p| resolve(p, bytes.len()));
        let full = bytes.len();
        match &fault {
            Some(Fault::Truncate { at }) => bytes.truncate(*at),
            Some(Fault::Flip { at, mask }) if !bytes.is_empty() => {
                let i = (*at).min(bytes.len() - 1);
                bytes[i] ^= *mask;
            }
            _ => {}
        }
        record(fault, full, "replied");
        Ok((bytes, rows, 0.0))
    }
}

/// A transport that serves canned replies (recorded from real fragments) with a cut —
/// used by the truncation enumerator so that each offset costs one coordinator pass.
pub struct CannedTransport {
    /// (address, table, shard_index) -> (bytes, rows)
    pub replies: BTreeMap<(String, String, usize), (Vec<u8>, usize)>,
    pub cut: Mutex<Option<((String, String, usize), usize)>>,
}

#[async_trait::async_trait]
impl FragmentTransport for CannedTransport {
    async fn send(&self, address: &str, req: &FragmentRequest) -> Result<(Vec<u8>, usize, f64)> {
        let key = (address.to_string(), req.table.clone(), req.shard_index);
        let Some((bytes, rows)) = self.replies.get(&key) else {
            return Err(QueryError::Execution(format!("canned transport has no reply for {key:?}")));
        };
        tokio::time::sleep(Duration::from_millis(1)).await;
        let mut b = bytes.clone();
        if let Some((k, at)) = &*self.cut.lock() {
            if *k == key {
                b.truncate(*at);
            }
        }
        Ok((b, *rows, 0.0))
    }
}
