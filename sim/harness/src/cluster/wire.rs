//! The wire layer of cluster-sim: real NodeState + real route() behind real hyper
//! HTTP/1 framing, real http_client through the network seam, real membership/probes,
//! on one paused single-threaded runtime; a link task per connection applies faults.
//! Serves C35 (front-door decisions and encodings) and C34 (Flight == HTTP).

use super::runs::build_scenario;
use super::world::World;
use crate::kit::canon::{self, Cell, Row};
use crate::kit::report::{RunOut, Tier, Violation};
use crate::kit::rng::{fnv, Rng};
use crate::kit::sqlgen::{self, Family};
use parking_lot::Mutex;
use query_engine::distributed::server::verif as srv;
use query_engine::distributed::{plan_distributed, Discovery, NodeState};
use query_engine::verif::net::{ConnectFuture, Connector, SimConn};
use query_engine::{ExecutionContext, QueryError};
use serde_json::{json, Value};
use std::collections::BTreeMap;
use std::sync::atomic::{AtomicBool, Ordering};
use std::sync::Arc;
use std::time::Duration;
use tokio::io::{AsyncReadExt, AsyncWriteExt};

fn viol(clause: &str, symptom: &str, features: Vec<String>, detail: String, context: Value) -> Violation {
    Violation { clause: clause.into(), symptom: symptom.into(), features, detail, overrides: json!({}), context }
}

#[derive(Clone, Debug, PartialEq)]
pub enum LinkFault {
    Refuse,
    /// forward `after` response bytes, then close cleanly
    Truncate(usize),
    /// forward `after` response bytes, then reset
    Reset(usize),
    /// forward `after` response bytes, then never send another byte
    Stall(usize),
    /// replace the whole response
    Status(u16),
    /// forward the complete header block and `at` body bytes, then close cleanly or reset
    /// (the header's length varies with a wall-clock header value; the body's does not)
    CutBody { at: usize, reset: bool },
}

impl LinkFault {
    pub fn kind(&self) -> &'static str {
        match self {
            LinkFault::Refuse => "refuse",
            LinkFault::Truncate(_) => "truncate",
            LinkFault::Reset(_) => "reset",
            LinkFault::Stall(_) => "stall",
            LinkFault::Status(_) => "http-status",
            LinkFault::CutBody { reset: false, .. } => "truncate",
            LinkFault::CutBody { reset: true, .. } => "reset",
        }
    }
}

pub struct SimNode {
    pub state: Arc<NodeState>,
    pub address: String,
    pub up: AtomicBool,
}

#[derive(Default)]
pub struct NetState {
    /// faults for the n-th `/fragment` connection to an address
    pub fragment_faults: BTreeMap<(String, usize), LinkFault>,
    pub fragment_conns: BTreeMap<String, usize>,
    pub fired: Vec<String>,
    pub connections: u64,
    /// every `/fragment` exchange seen: (address, n-th connection to it, header bytes, total response bytes)
    pub fragment_sizes: Vec<(String, usize, usize, usize)>,
}

pub struct Net {
    pub nodes: Vec<SimNode>,
    pub st: Mutex<NetState>,
}

impl Connector for Net {
    fn connect(&self, addr: &str) -> ConnectFuture {
        let node = self.nodes.iter().position(|n| n.address == addr);
        let target = node.map(|i| (self.nodes[i].state.clone(), self.nodes[i].up.load(Ordering::SeqCst)));
        self.st.lock().connections += 1;
        let addr = addr.to_string();
        // the fault (if any) is decided when the request line is seen
        let me: *const Net = self;
        let me = me as usize;
        Box::pin(async move {
            let Some((state, up)) = target else {
                return Err(std::io::Error::new(std::io::ErrorKind::ConnectionRefused, format!("no node at {addr}")));
            };
            if !up {
                return Err(std::io::Error::new(std::io::ErrorKind::ConnectionRefused, format!("{addr} is down")));
            }
            let (client_end, link_a) = tokio::io::duplex(1 << 22);
            let (link_b, server_end) = tokio::io::duplex(1 << 22);
            let reset = Arc::new(AtomicBool::new(false));
            tokio::spawn(srv::serve_stream(server_end, state));
            let r2 = reset.clone();
            tokio::spawn(async move {
                // SAFETY of the raw pointer: the Net outlives every task of the run (the
                // run joins on quiescence before dropping it) and tasks run on this thread.
                let net: &Net = unsafe { &*(me as *const Net) };
                let (mut a_r, mut a_w) = tokio::io::split(link_a);
                let (mut b_r, mut b_w) = tokio::io::split(link_b);
                // request: read until the client stops writing a complete request
                let mut req = Vec::new();
                let mut buf = vec![0u8; 16384];
                let mut need: Option<usize> = None;
                loop {
                    if let Some(n) = need {
                        if req.len() >= n {
                            break;
                        }
                    }
                    match a_r.read(&mut buf).await {
                        Ok(0) | Err(_) => break,
                        Ok(n) => {
                            req.extend_from_slice(&buf[..n]);
                            if need.is_none() {
                                if let Some(p) = req.windows(4).position(|w| w == b"\r\n\r\n") {
                                    let head = String::from_utf8_lossy(&req[..p]).to_ascii_lowercase();
                                    let cl = head.lines().find_map(|l| l.strip_prefix("content-length:").and_then(|v| v.trim().parse::<usize>().ok())).unwrap_or(0);
                                    need = Some(p + 4 + cl);
                                }
                            }
                        }
                    }
                }
                let path = String::from_utf8_lossy(&req[..req.len().min(200)]).split_whitespace().nth(1).unwrap_or("").to_string();
                let mut frag_nth: Option<usize> = None;
                let fault = if path.starts_with("/fragment") {
                    let mut st = net.st.lock();
                    let n = *st.fragment_conns.get(&addr).unwrap_or(&0);
                    st.fragment_conns.insert(addr.clone(), n + 1);
                    let f = st.fragment_faults.get(&(addr.clone(), n)).cloned();
                    // a refusal or a replaced response takes effect here; a cut takes effect
                    // only if the response is longer than the cut (decided below)
                    if let Some(f @ (LinkFault::Refuse | LinkFault::Status(_))) = &f {
                        st.fired.push(f.kind().to_string());
                    }
                    frag_nth = Some(n);
                    f
                } else {
                    None
                };
                tokio::time::sleep(Duration::from_millis(2)).await;
                if let Some(LinkFault::Refuse) = fault {
                    r2.store(true, Ordering::SeqCst);
                    return;
                }
                if b_w.write_all(&req).await.is_err() {
                    return;
                }
                let _ = b_w.flush().await;
                if let Some(LinkFault::Status(code)) = fault {
                    let body = format!("{{\"error\":\"injected\",\"status\":{code}}}");
                    let resp = format!("HTTP/1.1 {code} Injected\r\ncontent-type: application/json\r\ncontent-length: {}\r\nconnection: close\r\n\r\n{body}", body.len());
                    let _ = a_w.write_all(resp.as_bytes()).await;
                    let _ = a_w.shutdown().await;
                    return;
                }
                // response
                let limit = match &fault {
                    Some(LinkFault::Truncate(k)) | Some(LinkFault::Reset(k)) | Some(LinkFault::Stall(k)) => Some(*k),
                    _ => None,
                };
                if limit.is_some() || frag_nth.is_some() || matches!(fault, Some(LinkFault::CutBody { .. })) {
                    // a /fragment exchange: take the server's whole response first (its own
                    // Content-Length says when it is complete), so that its real length
                    // decides whether a cut at k bytes removes anything
                    let mut resp: Vec<u8> = Vec::new();
                    let mut total: Option<usize> = None;
                    let mut head_len = 0usize;
                    loop {
                        if let Some(t) = total {
                            if resp.len() >= t {
                                break;
                            }
                        }
                        // a response that declares no length ends when the server goes quiet
                        let got = if head_len > 0 && total.is_none() {
                            match tokio::time::timeout(Duration::from_secs(5), b_r.read(&mut buf)).await {
                                Ok(r) => r,
                                Err(_) => break,
                            }
                        } else {
                            b_r.read(&mut buf).await
                        };
                        match got {
                            Ok(0) | Err(_) => break,
                            Ok(n) => {
                                resp.extend_from_slice(&buf[..n]);
                                if total.is_none() {
                                    if let Some(p) = resp.windows(4).position(|w| w == b"\r\n\r\n") {
                                        let head = String::from_utf8_lossy(&resp[..p]).to_ascii_lowercase();
                                        head_len = p + 4;
                                        if let Some(cl) = head.lines().find_map(|l| l.strip_prefix("content-length:").and_then(|v| v.trim().parse::<usize>().ok())) {
                                            total = Some(p + 4 + cl);
                                        }
                                    }
                                }
                            }
                        }
                    }
                    if let Some(n) = frag_nth {
                        net.st.lock().fragment_sizes.push((addr.clone(), n, head_len, resp.len()));
                    }
                    let k = match &fault {
                        Some(LinkFault::CutBody { at, .. }) => head_len + *at,
                        _ => limit.unwrap_or(usize::MAX),
                    };
                    let effective = k < resp.len();
                    let send = &resp[..k.min(resp.len())];
                    if effective {
                        if let Some(f) = &fault {
                            net.st.lock().fired.push(f.kind().to_string());
                        }
                    }
                    for chunk in send.chunks(16384) {
                        tokio::time::sleep(Duration::from_millis(1)).await;
                        if a_w.write_all(chunk).await.is_err() {
                            return;
                        }
                    }
                    if effective {
                        match fault {
                            Some(LinkFault::Truncate(_)) | Some(LinkFault::CutBody { reset: false, .. }) => {
                                let _ = a_w.shutdown().await;
                            }
                            Some(LinkFault::Reset(_)) | Some(LinkFault::CutBody { reset: true, .. }) => r2.store(true, Ordering::SeqCst),
                            Some(LinkFault::Stall(_)) => tokio::time::sleep(Duration::from_secs(100_000_000)).await,
                            _ => {}
                        }
                        return;
                    }
                    let _ = a_w.shutdown().await;
                    return;
                }
                loop {
                    match b_r.read(&mut buf).await {
                        Ok(0) | Err(_) => break,
                        Ok(n) => {
                            tokio::time::sleep(Duration::from_millis(1)).await;
                            if a_w.write_all(&buf[..n]).await.is_err() {
                                return;
                            }
                        }
                    }
                }
                let _ = a_w.shutdown().await;
            });
            Ok(SimConn { io: client_end, reset })
        })
    }
}

pub struct HttpOut {
    pub status: u16,
    pub headers: Vec<(String, String)>,
    pub body: Vec<u8>,
}
impl HttpOut {
    pub fn header(&self, k: &str) -> Option<&str> {
        self.headers.iter().find(|(a, _)| a.eq_ignore_ascii_case(k)).map(|(_, v)| v.as_str())
    }
}

pub async fn post_sql(addr: &str, query: &str, sql: &str) -> Result<HttpOut, String> {
    let r = query_engine::distributed::http_client::request(addr, "POST", &format!("/sql?{query}"), Some("text/plain; charset=utf-8"), Some(sql.as_bytes()), Duration::from_secs(3600)).await;
    match r {
        Ok(r) => Ok(HttpOut { status: r.status, headers: r.headers, body: r.body }),
        Err(e) => Err(e.to_string()),
    }
}

/// A leaked paused runtime per run: `query_runtime()` needs a `&'static Runtime`.
pub fn leaked_runtime(seed: u64) -> &'static tokio::runtime::Runtime {
    Box::leak(Box::new(
        tokio::runtime::Builder::new_current_thread()
            .enable_all()
            .start_paused(true)
            .rng_seed(tokio::runtime::RngSeed::from_bytes(&seed.to_le_bytes()))
            .build()
            .expect("runtime"),
    ))
}

pub fn make_net(world: &World, loaded: &[bool]) -> Arc<Net> {
    let addrs: Vec<String> = world.nodes.iter().map(|n| n.address.clone()).collect();
    let nodes = world
        .nodes
        .iter()
        .enumerate()
        .map(|(i, n)| {
            let state = srv::node(n.node_id, &n.address, Discovery::Static(addrs.clone()), None);
            if loaded[i] {
                srv::install_context(&state, clone_ctx(world, i));
            }
            SimNode { state, address: n.address.clone(), up: AtomicBool::new(true) }
        })
        .collect();
    Arc::new(Net { nodes, st: Mutex::new(NetState::default()) })
}

/// A fresh context over node i's files (NodeState owns its context).
pub fn clone_ctx(world: &World, i: usize) -> ExecutionContext {
    let mut ctx = ExecutionContext::with_config(super::world::make_config());
    for (name, files) in &world.nodes[i].files {
        super::world::register(&mut ctx, name, files).expect("register");
    }
    ctx
}

fn decode_arrow(body: &[u8]) -> Result<Vec<Row>, String> {
    let reader = arrow::ipc::reader::StreamReader::try_new(std::io::Cursor::new(body), None).map_err(|e| e.to_string())?;
    let mut batches = Vec::new();
    for b in reader {
        batches.push(b.map_err(|e| e.to_string())?);
    }
    Ok(canon::rows_of(&batches))
}

fn parse_csv(body: &[u8]) -> Result<(Vec<String>, Vec<Vec<String>>), String> {
    let text = std::str::from_utf8(body).map_err(|e| e.to_string())?;
    let mut rows: Vec<Vec<String>> = Vec::new();
    let mut row: Vec<String> = Vec::new();
    let mut cell = String::new();
    let mut in_q = false;
    let mut chars = text.chars().peekable();
    let mut any = false;
    while let Some(c) = chars.next() {
        any = true;
        if in_q {
            if c == '"' {
                if chars.peek() == Some(&'"') {
                    cell.push('"');
                    chars.next();
                } else {
                    in_q = false;
                }
            } else {
                cell.push(c);
            }
        } else {
            match c {
                '"' => in_q = true,
                ',' => row.push(std::mem::take(&mut cell)),
                '\n' => {
                    row.push(std::mem::take(&mut cell));
                    rows.push(std::mem::take(&mut row));
                }
                '\r' => {}
                _ => cell.push(c),
            }
        }
    }
    if any && (!cell.is_empty() || !row.is_empty()) {
        row.push(cell);
        rows.push(row);
    }
    if rows.is_empty() {
        return Ok((vec![], vec![]));
    }
    let header = rows.remove(0);
    Ok((header, rows))
}

fn date_to_days(s: &str) -> Option<i64> {
    let p: Vec<&str> = s.split('-').collect();
    if p.len() != 3 {
        return None;
    }
    let (y, m, d): (i64, i64, i64) = (p[0].parse().ok()?, p[1].parse().ok()?, p[2].parse().ok()?);
    let y2 = if m <= 2 { y - 1 } else { y };
    let era = y2.div_euclid(400);
    let yoe = y2.rem_euclid(400);
    let mp = (m + 9) % 12;
    let doy = (153 * mp + 2) / 5 + d - 1;
    let doe = yoe * 365 + yoe / 4 - yoe / 100 + doy;
    Some(era * 146097 + doe - 719468)
}

/// Does the text cell of a CSV / JSON rendering denote the Arrow cell?
fn text_matches(cell: &Cell, text: Option<&str>) -> bool {
    match (cell, text) {
        (Cell::Null, None) => true,
        // strict: a NULL is an absent text cell only. (A lenient 'NULL also matches an empty
        // text' let the greedy multiset match give the NULL row's partner to the '' row or
        // the other way round, depending on the engine's row order: a flaky false alarm on
        // results holding both a NULL and a '' group. CSV's NULL/'' ambiguity is removed
        // on the Arrow side before the comparison instead.)
        (Cell::Null, Some(_)) => false,
        (_, None) => false,
        (Cell::Int(i), Some(t)) => t.parse::<i128>().map(|v| v == *i).unwrap_or(false),
        (Cell::Float(f), Some(t)) => t.parse::<f64>().map(|v| (v == *f) || (v - f).abs() <= 1e-9 * f.abs().max(v.abs()) || (v.is_nan() && f.is_nan())).unwrap_or(false),
        (Cell::Bool(b), Some(t)) => t == if *b { "true" } else { "false" },
        (Cell::Str(s), Some(t)) => s == t,
        (Cell::Other(o), Some(t)) => match o.strip_prefix("date:") {
            Some(d) => date_to_days(t).map(|x| x.to_string() == d).unwrap_or(false),
            None => true,
        },
    }
}

/// Multiset match between Arrow rows and text rows (each a vector of optional cells).
fn text_rows_match(arrow: &[Row], text: &[Vec<Option<String>>]) -> Result<(), String> {
    text_rows_match_sql("", arrow, text)
}

/// As `text_rows_match`; for an unordered page (two executions may pick different rows)
/// only the number of rows is compared.
fn text_rows_match_sql(sql: &str, arrow: &[Row], text: &[Vec<Option<String>>]) -> Result<(), String> {
    if sql.contains(" LIMIT ") && !sql.contains(" ORDER BY ") {
        return if arrow.len() == text.len() { Ok(()) } else { Err(format!("an unordered page of {} rows was encoded as {} text rows", arrow.len(), text.len())) };
    }
    text_rows_match_inner(arrow, text)
}

fn text_rows_match_inner(arrow: &[Row], text: &[Vec<Option<String>>]) -> Result<(), String> {
    if arrow.len() != text.len() {
        return Err(format!("row count {} (arrow) vs {} (text)", arrow.len(), text.len()));
    }
    let mut used = vec![false; text.len()];
    'outer: for r in arrow {
        for (j, t) in text.iter().enumerate() {
            if !used[j] && t.len() == r.len() && r.iter().zip(t).all(|(c, x)| text_matches(c, x.as_deref())) {
                used[j] = true;
                continue 'outer;
            }
        }
        return Err(format!("no text row matches arrow row [{}]", canon::render_row(r)));
    }
    Ok(())
}

fn ov_usize(ov: &Value, k: &str) -> Option<usize> {
    ov.get(k).and_then(|v| v.as_u64()).map(|v| v as usize)
}

/// C35 — the SQL front door decides and encodes consistently.
pub fn run_c35(_p: &str, _tier: Tier, run_seed: u64, ov: &Value) -> RunOut {
    let rng = Rng::new(run_seed);
    let mut out = RunOut::default();
    let mut log: Vec<String> = Vec::new();
    let rt = leaked_runtime(run_seed);
    let pool = rayon::ThreadPoolBuilder::new().num_threads(1).build().expect("pool");
    query_engine::verif::knobs::set("subquery.single_thread_runtime", 1);
    let mut sample = None;
    let mut er = rng.fork(3);
    let sim_ms = pool.install(|| {
        query_engine::verif::rt::set_query_runtime(Some(rt));
        let r = rt.block_on(async {
            let t0 = tokio::time::Instant::now();
            let mut ov2 = if ov.is_object() { ov.clone() } else { json!({}) };
            if ov2.get("nodes").is_none() {
                ov2["nodes"] = json!(1 + er.usize(4));
            }
            let sc = build_scenario(&rng, &ov2, sqlgen::ALL_FAMILIES, 7, 0);
            log.push(sc.world.describe().to_string());
            let n = sc.world.nodes.len();
            // load outcomes: loaded now, loaded later, load error
            let mut load: Vec<u8> = (0..n).map(|_| *er.pick(&[0u8, 0, 0, 1, 2])).collect();
            if n == 1 && er.coin() {
                load[0] = 0;
            }
            let net = make_net(&sc.world, &load.iter().map(|l| *l == 0).collect::<Vec<_>>());
            for (i, l) in load.iter().enumerate() {
                if *l == 2 {
                    srv::install_load_error(&net.nodes[i].state, "simulated: data directory missing");
                }
            }
            query_engine::verif::net::set_connector(Some(net.clone() as Arc<dyn Connector>));
            let mut si = 0usize;
            let n_events = 18;
            for ev in 0..n_events {
                let x = er.usize(n);
                let node = &net.nodes[x];
                match er.below(10) {
                    0 | 1 => {
                        srv::resolve_once(&node.state).await;
                        log.push(format!("e{ev} resolve@{x} gen={}", node.state.membership.generation()));
                    }
                    2 | 3 => {
                        srv::resolve_once(&node.state).await;
                        srv::probe_once(&node.state, Duration::from_millis(1000)).await;
                        log.push(format!("e{ev} probe@{x} participants={}", srv::participants(&node.state).len()));
                    }
                    4 => {
                        if load[x] == 1 {
                            srv::install_context(&node.state, clone_ctx(&sc.world, x));
                            load[x] = 0;
                            log.push(format!("e{ev} loaded@{x}"));
                            out.bump("probe.late_load");
                        }
                    }
                    _ => {
                        // a client statement
                        let st = &sc.stmts[si % sc.stmts.len()];
                        si += 1;
                        let mode = *er.pick(&["auto", "auto", "1", "0"]);
                        let loaded = load[x] == 0;
                        let participants = srv::participants(&node.state);
                        // optional fault on the first /fragment connection to one peer
                        net.st.lock().fragment_faults.clear();
                        net.st.lock().fragment_conns.clear();
                        net.st.lock().fired.clear();
                        let mut armed = None;
                        if er.chance(1, 3) && participants.len() >= 2 {
                            let peers: Vec<_> = participants.iter().filter(|p| !p.is_self).collect();
                            let p = er.pick(&peers);
                            let f = match er.below(5) {
                                0 => LinkFault::Refuse,
                                1 => LinkFault::Status(*er.pick(&[500u16, 503, 400])),
                                2 => LinkFault::Truncate(er.usize(400)),
                                3 => LinkFault::Reset(er.usize(400)),
                                _ => LinkFault::Stall(er.usize(300)),
                            };
                            net.st.lock().fragment_faults.insert((p.address.clone(), 0), f.clone());
                            out.bump(&format!("fault.{}.armed", f.kind()));
                            armed = Some(f);
                        }
                        let mut answers: Vec<(&str, HttpOut)> = Vec::new();
                        for fmt in ["arrow", "json", "csv"] {
                            // each format is one request; the fault plan applies to the first only
                            if fmt != "arrow" {
                                net.st.lock().fragment_faults.clear();
                            }
                            match post_sql(&node.address, &format!("distributed={mode}&format={fmt}"), &st.sql).await {
                                Ok(o) => answers.push((fmt, o)),
                                Err(e) => {
                                    out.violations.push(viol("front-door-answers", "client-error", vec![format!("mode:{mode}")], format!("POST /sql to a live node failed at the client: {e}"), json!({"sql": st.sql})));
                                }
                            }
                        }
                        if answers.len() != 3 {
                            continue;
                        }
                        let fired: Vec<String> = net.st.lock().fired.clone();
                        for k in &fired {
                            out.bump(&format!("fault.{k}.fired"));
                        }
                        let a = &answers[0].1;
                        let dist_hdr = a.header("x-qe-distributed").map(|s| s.to_string());
                        let skipped = a.header("x-qe-distributed-skipped").map(|s| s.to_string());
                        log.push(format!("e{ev} sql@{x} mode={mode} loaded={loaded} members={} status={} dist={:?} fired={:?} {}", participants.len(), a.status, dist_hdr, fired, st.sql));
                        let ctxj = json!({"sql": st.sql, "mode": mode, "node": x, "loaded": loaded, "participants": participants.len(), "status": a.status,
                                          "x-qe-distributed": dist_hdr, "skipped": skipped, "fault": armed.as_ref().map(|f| format!("{f:?}")), "fired": fired,
                                          "body_head": String::from_utf8_lossy(&a.body[..a.body.len().min(200)]).to_string()});
                        let feats = vec![format!("mode:{mode}"), format!("family:{}", st.family), format!("loaded:{loaded}")];
                        out.case_hashes.push(fnv(format!("{mode}|{loaded}|{}|{}|{:?}|{}", participants.len().min(3), a.status, fired, st.family).as_bytes()) ^ fnv(st.sql.as_bytes()));
                        // ---- readiness
                        if !loaded {
                            for (fmt, o) in &answers {
                                if o.status != 503 {
                                    out.violations.push(viol("answers-only-once-loaded", "answered-before-load", feats.clone(), format!("node {x} has no tables loaded but answered /sql ({fmt}) with {}", o.status), ctxj.clone()));
                                }
                            }
                            // /fragment must be refused too
                            let body = json!({"sql": "SELECT 1", "table": sc.world.tables[0].name, "shard_index": 0, "shard_count": 1, "splits_digest": 0}).to_string();
                            if let Ok(r) = query_engine::distributed::http_client::request(&node.address, "POST", "/fragment", Some("application/json"), Some(body.as_bytes()), Duration::from_secs(60)).await {
                                if r.status != 503 {
                                    out.violations.push(viol("answers-only-once-loaded", "fragment-answered-before-load", feats.clone(), format!("node {x} has no tables loaded but answered /fragment with {}", r.status), ctxj.clone()));
                                }
                            }
                            out.bump("probe.not_ready_503");
                            continue;
                        }
                        // ---- the decision model
                        let ctx = node.state.context().expect("loaded");
                        let plan = plan_distributed(&ctx, &st.sql);
                        let expect_distribute = match mode {
                            "0" => Some(false),
                            "1" => Some(true),
                            _ => {
                                if participants.len() < 2 {
                                    Some(false)
                                } else {
                                    Some(plan.is_ok())
                                }
                            }
                        };
                        let ok = a.status == 200;
                        match (expect_distribute, ok, dist_hdr.as_deref()) {
                            (Some(true), true, Some("true")) => out.bump("probe.distributed_answer"),
                            (Some(true), true, other) => {
                                let sym = if fired.is_empty() { "local-answer-where-distribution-was-decided" } else { "local-fallback-after-distributed-failure" };
                                out.violations.push(viol("decides-consistently", sym, feats.clone(), format!("mode={mode}, {} members up, plan ok={}: expected a distributed answer or an error, got 200 with x-qe-distributed={other:?}", participants.len(), plan.is_ok()), ctxj.clone()));
                            }
                            (Some(true), false, _) => {
                                out.bump("probe.distributed_error_status");
                            }
                            (Some(false), true, Some("false")) => {
                                out.bump("probe.local_answer");
                                if mode != "1" && skipped.is_none() {
                                    out.violations.push(viol("decides-consistently", "local-without-reason", feats.clone(), format!("mode={mode}: answered locally without x-qe-distributed-skipped"), ctxj.clone()));
                                }
                            }
                            (Some(false), true, other) => {
                                out.violations.push(viol("decides-consistently", "distributed-where-local-was-decided", feats.clone(), format!("mode={mode}, {} members up, plan ok={}: expected a local answer, got x-qe-distributed={other:?}", participants.len(), plan.is_ok()), ctxj.clone()));
                            }
                            (Some(false), false, _) => {}
                            (None, _, _) => {}
                        }
                        if !fired.is_empty() && ok && dist_hdr.as_deref() != Some("true") && expect_distribute == Some(true) {
                            out.bump("n.fallback_after_fault");
                        }
                        // a fired fault on a needed fragment must surface as an error
                        if !fired.is_empty() && ok && dist_hdr.as_deref() == Some("true") {
                            out.violations.push(viol("decides-consistently", "ok-despite-failed-fragment", feats.clone(), format!("a /fragment exchange was faulted ({fired:?}) but /sql answered 200 distributed"), ctxj.clone()));
                        }
                        // ---- encodings: the three bodies describe the same rows
                        // (the three formats are three executions: a finding that makes the
                        // engine's own answer vary between executions is keyed by its rewrite)
                        let mut feats_enc = feats.clone();
                        for x in crate::kit::planfeat::plan_features(&ctx, &st.sql) {
                            if !feats_enc.contains(&x) {
                                feats_enc.push(x);
                            }
                        }
                        for k in 2..=n.max(2) {
                            for x in super::runs::shard_plan_features(&ctx, &st.sql, k) {
                                if !feats_enc.contains(&x) {
                                    feats_enc.push(x);
                                }
                            }
                        }
                        if answers.iter().all(|(_, o)| o.status == 200) {
                            let arrow_rows = match decode_arrow(&answers[0].1.body) {
                                Ok(r) => r,
                                Err(e) => {
                                    out.violations.push(viol("encodes-the-engine-rows", "arrow-body-undecodable", feats_enc.clone(), format!("arrow body does not decode: {e}"), ctxj.clone()));
                                    continue;
                                }
                            };
                            let hdr_rows = answers[0].1.header("x-qe-rows").and_then(|v| v.parse::<usize>().ok());
                            if hdr_rows != Some(arrow_rows.len()) {
                                out.violations.push(viol("encodes-the-engine-rows", "x-qe-rows-differs", feats_enc.clone(), format!("x-qe-rows={hdr_rows:?} but the arrow body holds {} rows", arrow_rows.len()), ctxj.clone()));
                            }
                            // against the engine itself for local answers
                            if dist_hdr.as_deref() == Some("false") {
                                if let Ok(q) = ctx.sql(&st.sql).await {
                                    let direct = canon::rows_of(&q.batches);
                                    if let Err(d) = same_rows_or_page(&st.sql, &direct, &arrow_rows) {
                                        out.violations.push(viol("encodes-the-engine-rows", "arrow-body-differs-from-engine", feats_enc.clone(), format!("{}: {d}", st.sql), ctxj.clone()));
                                    }
                                }
                            }
                            // JSON
                            match serde_json::from_slice::<Value>(&answers[1].1.body) {
                                Ok(Value::Array(items)) => {
                                    // column names from the arrow schema
                                    let names = schema_names(&answers[0].1.body);
                                    let dup = names.iter().collect::<std::collections::BTreeSet<_>>().len() != names.len();
                                    if !dup {
                                        let text: Vec<Vec<Option<String>>> = items
                                            .iter()
                                            .map(|o| names.iter().map(|nm| match o.get(nm) { None | Some(Value::Null) => None, Some(Value::String(s)) => Some(s.clone()), Some(v) => Some(v.to_string()) }).collect())
                                            .collect();
                                        if let Err(d) = text_rows_match_sql(&st.sql, &arrow_rows, &text) {
                                            out.violations.push(viol("encodes-the-engine-rows", "json-body-differs", feats_enc.clone(), format!("{}: {d}", st.sql), ctxj.clone()));
                                        } else {
                                            out.bump("probe.json_roundtrip");
                                        }
                                    }
                                }
                                Ok(_) | Err(_) if arrow_rows.is_empty() => {}
                                _ => out.violations.push(viol("encodes-the-engine-rows", "json-body-unparseable", feats_enc.clone(), "the JSON body is not an array".into(), ctxj.clone())),
                            }
                            // CSV (empty strings and NULLs are both empty cells: documented lossy)
                            match parse_csv(&answers[2].1.body) {
                                Ok((_h, rows)) => {
                                    let text: Vec<Vec<Option<String>>> = rows.into_iter().map(|r| r.into_iter().map(|c| if c.is_empty() { None } else { Some(c) }).collect()).collect();
                                    let lossy: Vec<Row> = arrow_rows.iter().map(|r| r.iter().map(|c| if matches!(c, Cell::Str(s) if s.is_empty()) { Cell::Null } else { c.clone() }).collect()).collect();
                                    // a one-column result whose only cell is NULL/empty renders as an empty line: not comparable row by row
                                    let single_col = lossy.first().map(|r| r.len() == 1).unwrap_or(false);
                                    if !(single_col && lossy.iter().any(|r| matches!(r[0], Cell::Null))) {
                                        if let Err(d) = text_rows_match_sql(&st.sql, &lossy, &text) {
                                            out.violations.push(viol("encodes-the-engine-rows", "csv-body-differs", feats_enc.clone(), format!("{}: {d}", st.sql), ctxj.clone()));
                                        } else {
                                            out.bump("probe.csv_roundtrip");
                                        }
                                    }
                                }
                                Err(e) => out.violations.push(viol("encodes-the-engine-rows", "csv-body-unparseable", feats_enc.clone(), e, ctxj.clone())),
                            }
                        }
                    }
                }
            }
            query_engine::verif::net::set_connector(None);
            sample = Some(json!({"world": sc.world.describe(), "log": log.iter().skip(1).take(5).collect::<Vec<_>>()}));
            let ms = t0.elapsed().as_millis() as u64;
            drop(net);
            ms
        });
        query_engine::verif::rt::set_query_runtime(None);
        r
    });
    out.sim_ms = sim_ms;
    out.sample = sample;
    out.log_hash = fnv(log.join("\n").as_bytes());
    let mut seen = std::collections::BTreeSet::new();
    out.violations.retain(|v| seen.insert((v.clause.clone(), v.symptom.clone(), v.features.clone())));
    for v in out.violations.iter_mut() {
        v.overrides = if ov.is_object() { ov.clone() } else { json!({}) };
    }
    let _ = (ov_usize, QueryError::Parse(String::new()), Family::Filter);
    out
}

/// C10 at the wire: `POST /sql?distributed=1` against real nodes whose `/fragment`
/// responses pass through a link that cuts ONE of them at a chosen byte offset (clean
/// close or reset). The offsets enumerate the real response of that exchange: every
/// offset in the thorough tier; in the quick tier every offset of the header, the first
/// 48 and last 48 body bytes, and a seeded sample in between. Whenever the cut removed
/// at least one byte, the front door must answer with an error status, never 200.
pub fn run_c10_wire(_p: &str, tier: Tier, run_seed: u64, ov: &Value) -> RunOut {
    let rng = Rng::new(run_seed);
    let mut out = RunOut::default();
    let mut log: Vec<String> = Vec::new();
    let rt = leaked_runtime(run_seed);
    let pool = rayon::ThreadPoolBuilder::new().num_threads(1).build().expect("pool");
    query_engine::verif::knobs::set("subquery.single_thread_runtime", 1);
    let mut sample = None;
    let mut er = rng.fork(3);
    let only_offset = ov_usize(ov, "only_offset");
    let only_kind = ov.get("only_kind").and_then(|v| v.as_str()).map(String::from);
    let only_region = ov.get("only_region").and_then(|v| v.as_str()).map(String::from);
    let sim_ms = pool.install(|| {
        query_engine::verif::rt::set_query_runtime(Some(rt));
        let r = rt.block_on(async {
            let t0 = tokio::time::Instant::now();
            let mut ov2 = if ov.is_object() { ov.clone() } else { json!({}) };
            if ov2.get("nodes").is_none() {
                ov2["nodes"] = json!(2 + er.usize(3));
            }
            let sc = build_scenario(&rng, &ov2, sqlgen::ALL_FAMILIES, 6, 0);
            log.push(sc.world.describe().to_string());
            let n = sc.world.nodes.len();
            let net = make_net(&sc.world, &vec![true; n]);
            query_engine::verif::net::set_connector(Some(net.clone() as Arc<dyn Connector>));
            for node in &net.nodes {
                srv::resolve_once(&node.state).await;
                srv::probe_once(&node.state, Duration::from_millis(1000)).await;
            }
            let mut enumerated = 0usize;
            for (si, st) in sc.stmts.iter().enumerate() {
                if enumerated >= 2 && only_offset.is_none() {
                    break;
                }
                let x = er.usize(n);
                let node = &net.nodes[x];
                {
                    let mut s = net.st.lock();
                    s.fragment_faults.clear();
                    s.fragment_conns.clear();
                    s.fired.clear();
                    s.fragment_sizes.clear();
                }
                let clean = match post_sql(&node.address, "distributed=1&format=arrow", &st.sql).await {
                    Ok(o) => o,
                    Err(e) => {
                        out.violations.push(viol("front-door-answers", "client-error", vec![], format!("POST /sql to a live node failed at the client: {e}"), json!({"sql": st.sql})));
                        continue;
                    }
                };
                // fragments to different peers complete in an order real executor threads decide
                let mut sizes = net.st.lock().fragment_sizes.clone();
                sizes.sort();
                if clean.status != 200 || clean.header("x-qe-distributed") != Some("true") || sizes.is_empty() {
                    out.bump("n.wire_statement_not_distributed");
                    log.push(format!("{si} {} skipped status={} frags={}", st.sql, clean.status, sizes.len()));
                    continue;
                }
                let clean_rows = decode_arrow(&clean.body).unwrap_or_default();
                let (addr, nth, head_len, total) = er.pick(&sizes).clone();
                out.bump("probe.wire_exchange_recorded");
                enumerated += 1;
                // cuts: (in_body, index); header indices are absolute, body indices are relative
                // to the end of the header block
                let body_len = total - head_len;
                let mut cuts: Vec<(bool, usize)> = Vec::new();
                if let Some(k) = only_offset {
                    cuts.push((only_region.as_deref() != Some("head"), k));
                } else if tier == Tier::Thorough {
                    cuts.extend((0..head_len).map(|i| (false, i)));
                    cuts.extend((0..body_len).map(|j| (true, j)));
                } else {
                    cuts.extend((0..head_len).map(|i| (false, i)));
                    let mut b: Vec<usize> = (0..body_len.min(48)).collect();
                    b.extend(body_len.saturating_sub(48)..body_len);
                    for _ in 0..24 {
                        b.push(er.usize(body_len.max(1)));
                    }
                    b.sort();
                    b.dedup();
                    b.retain(|j| *j < body_len);
                    cuts.extend(b.into_iter().map(|j| (true, j)));
                }
                if cuts.iter().filter(|c| c.0).count() == body_len && only_offset.is_none() {
                    out.bump("probe.wire_response_fully_enumerated");
                }
                // the header's length is not part of the log: it carries a wall-clock value
                log.push(format!("{si} {} frag=({addr},{nth}) body={body_len} body_cuts={}", st.sql, cuts.iter().filter(|c| c.0).count()));
                let mut rejected = 0usize;
                let mut not_effective = 0usize;
                let mut accepted = 0usize;
                for (oi, (in_body, k)) in cuts.iter().enumerate() {
                    let kind = match only_kind.as_deref() {
                        Some("reset") => "reset",
                        Some(_) => "truncate",
                        None => if oi % 4 == 3 { "reset" } else { "truncate" },
                    };
                    let f = match (*in_body, kind == "reset") {
                        (true, r) => LinkFault::CutBody { at: *k, reset: r },
                        (false, true) => LinkFault::Reset(*k),
                        (false, false) => LinkFault::Truncate(*k),
                    };
                    {
                        let mut s = net.st.lock();
                        s.fragment_faults.clear();
                        s.fragment_conns.clear();
                        s.fired.clear();
                        s.fragment_sizes.clear();
                        s.fragment_faults.insert((addr.clone(), nth), f);
                    }
                    out.bump(&format!("fault.wire-{kind}.armed"));
                    let got = post_sql(&node.address, "distributed=1&format=arrow", &st.sql).await;
                    let fired = net.st.lock().fired.clone();
                    if fired.is_empty() {
                        // the exchange was not longer than the cut this time (or was not made)
                        not_effective += 1;
                        continue;
                    }
                    out.bump(&format!("fault.wire-{kind}.fired"));
                    let region = if !*in_body { "cut:header" } else if *k + 8 >= body_len { "cut:last-bytes" } else { "cut:body" };
                    out.case_hashes.push(fnv(format!("{kind}|{in_body}|{k}|{}", st.family).as_bytes()) ^ fnv(st.sql.as_bytes()));
                    match got {
                        Ok(o) if o.status == 200 => {
                            accepted += 1;
                            let rows = decode_arrow(&o.body).map(|r| r.len() as i64).unwrap_or(-1);
                            let mut v = viol(
                                "failed-fragment-fails-query",
                                "ok-despite-cut-fragment-response",
                                vec![format!("family:{}", st.family), format!("fault:wire-{kind}"), region.to_string()],
                                format!("{}: the /fragment response from {addr} ({body_len}-byte body) was cut after {} {k} bytes ({kind}) but POST /sql?distributed=1 answered 200 with {rows} rows (fault-free: {})", st.sql, if *in_body { "the header and" } else { "only" }, clean_rows.len()),
                                json!({"stmt_index": si, "sql": st.sql, "offset": k, "region": if *in_body { "body" } else { "head" }, "body_len": body_len, "kind": kind, "nodes": n}),
                            );
                            let mut o2 = if ov.is_object() { ov.clone() } else { json!({}) };
                            o2["wire"] = json!(true);
                            v.overrides = o2;
                            out.violations.push(v);
                        }
                        Ok(_) | Err(_) => rejected += 1,
                    }
                }
                if rejected > 0 {
                    out.bump("probe.wire_cut_rejected");
                }
                out.add("n.wire_cuts_rejected", rejected as u64);
                out.add("n.wire_cuts_not_effective", not_effective as u64);
                log.push(format!("{si} accepted={accepted}"));
            }
            query_engine::verif::net::set_connector(None);
            sample = Some(json!({"layer": "wire", "world": sc.world.describe(), "log": log.iter().skip(1).take(4).collect::<Vec<_>>()}));
            let ms = t0.elapsed().as_millis() as u64;
            drop(net);
            ms
        });
        query_engine::verif::rt::set_query_runtime(None);
        r
    });
    out.sim_ms = sim_ms;
    out.sample = sample;
    out.log_hash = fnv(log.join("\n").as_bytes());
    let mut seen = std::collections::BTreeSet::new();
    out.violations.retain(|v| seen.insert((v.clause.clone(), v.symptom.clone(), v.features.clone())));
    out
}

/// Two executions of one statement: the same multiset of rows, except for an unordered
/// page (LIMIT without ORDER BY), where only the number of rows is specified.
fn same_rows_or_page(sql: &str, a: &[Row], b: &[Row]) -> Result<(), String> {
    if sql.contains(" LIMIT ") && !sql.contains(" ORDER BY ") {
        return if a.len() == b.len() { Ok(()) } else { Err(format!("an unordered page of {} rows came back with {} rows", a.len(), b.len())) };
    }
    canon::same_multiset(a, b)
}

fn schema_names(arrow_body: &[u8]) -> Vec<String> {
    match arrow::ipc::reader::StreamReader::try_new(std::io::Cursor::new(arrow_body), None) {
        Ok(r) => r.schema().fields().iter().map(|f| f.name().clone()).collect(),
        Err(_) => vec![],
    }
}

// ---------------------------------------------------------------------------------- C34

use arrow_flight::flight_service_server::FlightService;
use arrow_flight::{FlightDescriptor, Ticket};
use futures::{StreamExt, TryStreamExt};

struct FlightOut {
    names: Vec<String>,
    types: Vec<String>,
    rows: Vec<Row>,
    data_messages: usize,
    trailer: Option<Value>,
}

async fn flight_query(svc: &impl FlightService, sql: &str, mode: &str) -> Result<FlightOut, tonic::Status> {
    let cmd = if mode == "auto" && !sql.trim_start().starts_with('{') { sql.as_bytes().to_vec() } else { json!({"sql": sql, "mode": mode}).to_string().into_bytes() };
    let info = svc.get_flight_info(tonic::Request::new(FlightDescriptor::new_cmd(cmd))).await?.into_inner();
    let ticket = info.endpoint.first().and_then(|e| e.ticket.clone()).ok_or_else(|| tonic::Status::internal("no ticket"))?;
    flight_get(svc, ticket).await
}

async fn flight_get(svc: &impl FlightService, ticket: Ticket) -> Result<FlightOut, tonic::Status> {
    let stream = svc.do_get(tonic::Request::new(ticket)).await?.into_inner();
    let mut decoded = arrow_flight::decode::FlightDataDecoder::new(stream.map_err(|s| arrow_flight::error::FlightError::Tonic(Box::new(s))));
    let mut batches = Vec::new();
    let mut schema = None;
    let mut trailer = None;
    let mut data_messages = 0;
    while let Some(item) = decoded.next().await {
        let d = item.map_err(|e| tonic::Status::internal(format!("decode: {e}")))?;
        if !d.inner.app_metadata.is_empty() {
            trailer = serde_json::from_slice::<Value>(&d.inner.app_metadata).ok();
        }
        match d.payload {
            arrow_flight::decode::DecodedPayload::Schema(s) => schema = Some(s),
            arrow_flight::decode::DecodedPayload::RecordBatch(b) => {
                data_messages += 1;
                batches.push(b);
            }
            arrow_flight::decode::DecodedPayload::None => {}
        }
    }
    let schema = schema.ok_or_else(|| tonic::Status::internal("no schema message"))?;
    Ok(FlightOut {
        names: schema.fields().iter().map(|f| f.name().clone()).collect(),
        types: schema.fields().iter().map(|f| format!("{}", f.data_type())).collect(),
        rows: canon::rows_of(&batches),
        data_messages,
        trailer,
    })
}

fn http_class(status: u16) -> &'static str {
    match status {
        503 => "unavailable",
        501 => "unimplemented",
        500 => "internal",
        400..=499 => "bad-request",
        _ => "other",
    }
}
fn grpc_class(code: tonic::Code) -> &'static str {
    match code {
        tonic::Code::Unavailable => "unavailable",
        tonic::Code::Unimplemented => "unimplemented",
        // HTTP folds every engine error that is not NotImplemented into 400
        tonic::Code::InvalidArgument | tonic::Code::NotFound | tonic::Code::Internal => "bad-request",
        _ => "other",
    }
}

/// C34 — Flight and HTTP return the same answer.
pub fn run_c34(_p: &str, _tier: Tier, run_seed: u64, ov: &Value) -> RunOut {
    let rng = Rng::new(run_seed);
    let mut out = RunOut::default();
    let mut log: Vec<String> = Vec::new();
    let rt = leaked_runtime(run_seed);
    let pool = rayon::ThreadPoolBuilder::new().num_threads(1).build().expect("pool");
    query_engine::verif::knobs::set("subquery.single_thread_runtime", 1);
    let mut sample = None;
    let mut er = rng.fork(3);
    let sim_ms = pool.install(|| {
        query_engine::verif::rt::set_query_runtime(Some(rt));
        let r = rt.block_on(async {
            let t0 = tokio::time::Instant::now();
            let mut ov2 = if ov.is_object() { ov.clone() } else { json!({}) };
            if ov2.get("nodes").is_none() {
                ov2["nodes"] = json!(1 + er.usize(3));
            }
            let sc = build_scenario(&rng, &ov2, sqlgen::ALL_FAMILIES, 8, 0);
            log.push(sc.world.describe().to_string());
            let n = sc.world.nodes.len();
            let load: Vec<bool> = (0..n).map(|i| i == 0 || er.chance(4, 5)).collect();
            let net = make_net(&sc.world, &load);
            query_engine::verif::net::set_connector(Some(net.clone() as Arc<dyn Connector>));
            // bring membership to a seeded state: some nodes resolved and probed, some not
            for node in &net.nodes {
                if er.chance(3, 4) {
                    srv::resolve_once(&node.state).await;
                    if er.chance(3, 4) {
                        srv::probe_once(&node.state, Duration::from_millis(1000)).await;
                    }
                }
            }
            // statements: the generated ones plus sizes around the 4096-row slice and errors
            let big = sc.world.tables.iter().max_by_key(|t| t.rows).unwrap();
            let mut stmts: Vec<String> = sc.stmts.iter().map(|s| s.sql.clone()).collect();
            stmts.push(format!("SELECT id FROM {} WHERE id < 0", big.name));
            stmts.push(format!("SELECT COUNT(*) FROM {}", big.name));
            stmts.push(format!("SELECT id FROM {0} UNION ALL SELECT id FROM {0} UNION ALL SELECT id FROM {0} UNION ALL SELECT id FROM {0}", big.name));
            // results that reach the encoder as ONE batch of more than 4096 rows (a sort emits a
            // single batch), of a seeded size: the re-chunking into 4096-row messages must
            // lose nothing whatever the remainder is
            let total4 = big.rows * 4;
            if total4 > 4097 {
                let n = 4097 + er.usize(total4 - 4097);
                stmts.push(format!("SELECT id FROM (SELECT id FROM {0} UNION ALL SELECT id FROM {0} UNION ALL SELECT id FROM {0} UNION ALL SELECT id FROM {0}) u ORDER BY id LIMIT {n}", big.name));
                stmts.push(format!("SELECT id FROM (SELECT id FROM {0} UNION ALL SELECT id FROM {0} UNION ALL SELECT id FROM {0} UNION ALL SELECT id FROM {0}) u ORDER BY id", big.name));
            }
            stmts.push(format!("SELECT no_such_column FROM {}", big.name));
            stmts.push("SELECT * FROM no_such_table".to_string());
            stmts.push("SELEC 1".to_string());
            stmts.push(format!("SELECT id, PERCENTILE_CONT(0.5) WITHIN GROUP (ORDER BY id) FROM {} GROUP BY id", big.name));
            for (si, sql) in stmts.iter().enumerate() {
                let x = er.usize(n);
                let node = &net.nodes[x];
                let (fmode, hmode) = *er.pick(&[("auto", "auto"), ("auto", "auto"), ("force", "1"), ("off", "0")]);
                let svc = srv::flight_service(node.state.clone());
                // no event is processed between the two calls: both see the same node state
                let f = flight_query(&svc, sql, fmode).await;
                let h = post_sql(&node.address, &format!("distributed={hmode}&format=arrow"), sql).await;
                let h = match h {
                    Ok(h) => h,
                    Err(e) => {
                        out.violations.push(viol("flight-equals-http", "http-client-error", vec![], format!("POST /sql failed at the client: {e}"), json!({"sql": sql})));
                        continue;
                    }
                };
                let feats = vec![format!("mode:{fmode}"), format!("loaded:{}", load[x])];
                let ctxj = json!({"sql": sql, "mode": fmode, "node": x, "loaded": load[x], "http_status": h.status,
                                  "flight": match &f { Ok(o) => json!({"rows": o.rows.len(), "messages": o.data_messages, "trailer": o.trailer}), Err(s) => json!({"code": format!("{:?}", s.code()), "message": s.message()}) }});
                log.push(format!("{si} @{x} mode={fmode} http={} flight={} {}", h.status, match &f { Ok(o) => format!("ok:{}", o.rows.len()), Err(s) => format!("{:?}", s.code()) }, sql));
                out.case_hashes.push(fnv(format!("{fmode}|{}|{}|{}", load[x], h.status, match &f { Ok(o) => (o.rows.len().min(5000) / 1000).to_string(), Err(s) => format!("{:?}", s.code()) }).as_bytes()) ^ fnv(sql.as_bytes()));
                match (&f, h.status) {
                    (Ok(fo), 200) => {
                        let hr = match decode_arrow(&h.body) {
                            Ok(r) => r,
                            Err(e) => {
                                out.violations.push(viol("flight-equals-http", "http-arrow-undecodable", feats.clone(), e, ctxj.clone()));
                                continue;
                            }
                        };
                        if fo.rows.len() > 4096 {
                            out.bump("probe.result_over_4096_rows");
                        }
                        if fo.rows.is_empty() {
                            out.bump("probe.empty_result");
                        }
                        if let Err(d) = same_rows_or_page(sql, &hr, &fo.rows) {
                            let mut f = feats.clone();
                            if let Some(c) = node.state.context() {
                                f.extend(crate::kit::planfeat::plan_features(&c, sql));
                                // the same rewrite may fire only on the shards of a distributed answer
                                for k in 2..=net.nodes.len().max(2) {
                                    for x in super::runs::shard_plan_features(&c, sql, k) {
                                        if !f.contains(&x) {
                                            f.push(x);
                                        }
                                    }
                                }
                            }
                            out.violations.push(viol("flight-equals-http", "rows-differ", f, format!("{sql}: {d}"), ctxj.clone()));
                        }
                        // schema: names and types (when the HTTP body carries a schema)
                        if let Ok(r) = arrow::ipc::reader::StreamReader::try_new(std::io::Cursor::new(&h.body[..]), None) {
                            let hn: Vec<String> = r.schema().fields().iter().map(|f| f.name().clone()).collect();
                            let ht: Vec<String> = r.schema().fields().iter().map(|f| format!("{}", f.data_type())).collect();
                            if hn != fo.names || ht != fo.types {
                                out.violations.push(viol("flight-equals-http", "schema-differs", feats.clone(), format!("{sql}: http {hn:?}/{ht:?} vs flight {:?}/{:?}", fo.names, fo.types), ctxj.clone()));
                            }
                        }
                        match &fo.trailer {
                            None => out.violations.push(viol("flight-trailer", "missing-trailer", feats.clone(), format!("{sql}: DoGet carried no metadata trailer"), ctxj.clone())),
                            Some(t) => {
                                if t["rows"].as_u64() != Some(fo.rows.len() as u64) {
                                    out.violations.push(viol("flight-trailer", "trailer-rows-differ", feats.clone(), format!("{sql}: trailer rows {:?} but {} rows were streamed", t["rows"], fo.rows.len()), ctxj.clone()));
                                }
                                let hd = h.header("x-qe-distributed").map(|v| v == "true");
                                if t["distributed"].as_bool() != hd {
                                    out.violations.push(viol("flight-equals-http", "distribution-decision-differs", feats.clone(), format!("{sql}: trailer distributed={:?} but x-qe-distributed={hd:?}", t["distributed"]), ctxj.clone()));
                                }
                                let hs = h.header("x-qe-distributed-skipped").is_some();
                                if t.get("skipped_reason").is_some() != hs {
                                    out.violations.push(viol("flight-equals-http", "skipped-reason-differs", feats.clone(), format!("{sql}: trailer skipped_reason present={} vs header present={hs}", t.get("skipped_reason").is_some()), ctxj.clone()));
                                }
                            }
                        }
                    }
                    (Err(s), st) if st != 200 => {
                        if http_class(st) != grpc_class(s.code()) {
                            out.violations.push(viol("flight-equals-http", "error-class-differs", feats.clone(), format!("{sql}: HTTP {st} but Flight {:?}", s.code()), ctxj.clone()));
                        } else {
                            out.bump(&format!("probe.error_{}", http_class(st)));
                        }
                    }
                    (Ok(_), st) => out.violations.push(viol("flight-equals-http", "flight-ok-http-error", feats.clone(), format!("{sql}: Flight answered but HTTP returned {st}"), ctxj.clone())),
                    (Err(s), _) => out.violations.push(viol("flight-equals-http", "http-ok-flight-error", feats.clone(), format!("{sql}: HTTP answered 200 but Flight returned {:?}: {}", s.code(), s.message()), ctxj.clone())),
                }
            }
            // malformed / oversized / unknown-version tickets are refused
            let node = &net.nodes[0];
            let svc = srv::flight_service(node.state.clone());
            let good = json!({"v": 1, "sql": format!("SELECT COUNT(*) FROM {}", big.name), "mode": "off"}).to_string();
            let mut oversized = json!({"v": 1, "sql": format!("SELECT COUNT(*) FROM {} -- {}", big.name, "x".repeat(1024 * 1024)), "mode": "auto"}).to_string().into_bytes();
            oversized.truncate(1024 * 1024 + 1);
            let bad: Vec<(&str, Vec<u8>)> = vec![
                ("not-json", b"this is not json".to_vec()),
                ("truncated-json", good.as_bytes()[..good.len() / 2].to_vec()),
                ("version-2", json!({"v": 2, "sql": "SELECT 1", "mode": "auto"}).to_string().into_bytes()),
                ("version-0", json!({"v": 0, "sql": "SELECT 1", "mode": "auto"}).to_string().into_bytes()),
                ("unknown-mode", json!({"v": 1, "sql": "SELECT 1", "mode": "sometimes"}).to_string().into_bytes()),
                ("oversized", oversized),
                ("non-utf8", vec![0xff, 0xfe, 0x00, 0x7b]),
                ("empty", vec![]),
            ];
            for (kind, bytes) in bad {
                out.bump(&format!("fault.ticket_{kind}.armed"));
                match flight_get(&svc, Ticket::new(bytes)).await {
                    Ok(o) => out.violations.push(viol("bad-tickets-refused", "bad-ticket-answered", vec![format!("ticket:{kind}")], format!("a {kind} ticket returned {} rows", o.rows.len()), json!({}))),
                    Err(s) if s.code() == tonic::Code::InvalidArgument => out.bump(&format!("fault.ticket_{kind}.fired")),
                    Err(s) => out.violations.push(viol("bad-tickets-refused", "wrong-refusal-code", vec![format!("ticket:{kind}")], format!("a {kind} ticket was refused with {:?} instead of InvalidArgument", s.code()), json!({"message": s.message()}))),
                }
            }
            // the good ticket works (so the refusals above are about the ticket, not the node)
            if load[0] {
                if let Err(s) = flight_get(&svc, Ticket::new(good.into_bytes())).await {
                    out.violations.push(viol("bad-tickets-refused", "good-ticket-refused", vec![], format!("a well-formed v1 ticket was refused: {:?} {}", s.code(), s.message()), json!({})));
                }
            }
            // a well-formed ticket may carry a statement that no longer plans (hand-made, or
            // stale): DoGet is then the first to see the failure and must report the class
            // /sql reports for the same statement
            if load[0] {
                for sql in [format!("SELECT no_such_column FROM {}", big.name), "SELECT * FROM no_such_table".to_string(), "SELEC 1".to_string()] {
                    let http = post_sql(&node.address, "distributed=0&format=arrow", &sql).await;
                    let ticket = json!({"v": 1, "sql": sql, "mode": "off"}).to_string().into_bytes();
                    let fl = flight_get(&svc, Ticket::new(ticket)).await;
                    out.bump("n.stale_ticket_statements");
                    match (http, fl) {
                        (Ok(h), Err(s)) if h.status != 200 => {
                            if http_class(h.status) != grpc_class(s.code()) {
                                out.violations.push(viol("flight-equals-http", "error-class-differs", vec!["ticket:well-formed-unplannable-statement".into()], format!("{sql}: HTTP {} but DoGet on a well-formed ticket answered {:?}", h.status, s.code()), json!({"message": s.message()})));
                            } else {
                                out.bump("probe.stale_ticket_error_class_agrees");
                            }
                        }
                        (Ok(h), Ok(o)) if h.status != 200 => out.violations.push(viol("flight-equals-http", "flight-ok-http-error", vec!["ticket:well-formed-unplannable-statement".into()], format!("{sql}: HTTP {} but DoGet returned {} rows", h.status, o.rows.len()), json!({}))),
                        _ => {}
                    }
                }
            }
            // a statement the distributed paths refuse under force mode plans locally, so
            // GetFlightInfo mints a ticket and the refusal surfaces in DoGet only
            if load[0] {
                for sql in ["SELECT 1", "SELECT 1 AS x, 'a' AS y"] {
                    let http = post_sql(&node.address, "distributed=1&format=arrow", sql).await;
                    let fl = flight_query(&svc, sql, "force").await;
                    out.bump("n.forced_constant_statements");
                    match (http, fl) {
                        (Ok(h), Err(s)) if h.status != 200 => {
                            if http_class(h.status) != grpc_class(s.code()) {
                                out.violations.push(viol("flight-equals-http", "error-class-differs", vec!["mode:force".into(), "statement:no-table".into()], format!("{sql}: HTTP {} but Flight {:?}", h.status, s.code()), json!({"message": s.message()})));
                            } else {
                                out.bump(&format!("probe.forced_constant_{}", http_class(h.status)));
                            }
                        }
                        (Ok(h), Ok(o)) if h.status != 200 => out.violations.push(viol("flight-equals-http", "flight-ok-http-error", vec!["mode:force".into(), "statement:no-table".into()], format!("{sql}: HTTP {} but Flight returned {} rows", h.status, o.rows.len()), json!({}))),
                        (Ok(h), Err(s)) => out.violations.push(viol("flight-equals-http", "http-ok-flight-error", vec!["mode:force".into(), "statement:no-table".into()], format!("{sql}: HTTP {} but Flight {:?}: {}", h.status, s.code(), s.message()), json!({}))),
                        _ => {}
                    }
                }
            }
            query_engine::verif::net::set_connector(None);
            sample = Some(json!({"world": sc.world.describe(), "log": log.iter().skip(1).take(5).collect::<Vec<_>>()}));
            let ms = t0.elapsed().as_millis() as u64;
            drop(net);
            ms
        });
        query_engine::verif::rt::set_query_runtime(None);
        r
    });
    out.sim_ms = sim_ms;
    out.sample = sample;
    out.log_hash = fnv(log.join("\n").as_bytes());
    let mut seen = std::collections::BTreeSet::new();
    out.violations.retain(|v| seen.insert((v.clause.clone(), v.symptom.clone(), v.features.clone())));
    for v in out.violations.iter_mut() {
        v.overrides = if ov.is_object() { ov.clone() } else { json!({}) };
    }
    out
}
