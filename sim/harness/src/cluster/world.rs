//! The simulated cluster world: generated tables, per-node Parquet copies under
//! different mounts and listing orders, one real ExecutionContext per node.

use crate::kit::datagen::{self, GenProfile, ParquetLayout, Table};
use crate::kit::rng::Rng;
use query_engine::distributed::Participant;
use query_engine::{ExecutionConfig, ExecutionContext, ParquetTable};
use std::path::PathBuf;
use std::sync::atomic::{AtomicU64, Ordering};
use std::sync::Arc;

static DIR_COUNTER: AtomicU64 = AtomicU64::new(0);

/// A fresh directory nobody in this process used before (the engine's footer cache is
/// keyed on path + mtime; re-using a path for different bytes would be C19's subject,
/// not this simulator's).
pub fn fresh_dir(tag: &str) -> PathBuf {
    let n = DIR_COUNTER.fetch_add(1, Ordering::Relaxed);
    let d = crate::kit::report::scratch_root().join(format!("{tag}-{n}"));
    std::fs::create_dir_all(&d).expect("scratch dir");
    d
}

pub struct NodeData {
    /// table name -> file list in this node's own listing order
    pub files: Vec<(String, Vec<PathBuf>)>,
    pub ctx: Arc<ExecutionContext>,
    pub address: String,
    pub node_id: u64,
}

pub struct World {
    pub root: PathBuf,
    pub tables: Vec<Table>,
    pub layouts: Vec<ParquetLayout>,
    pub nodes: Vec<NodeData>,
    /// the single-node oracle: one context over node 0's files in write order
    pub single: ExecutionContext,
    /// the same rows registered in memory, one batch per table: the arbiter that tells a
    /// defect of the single-node Parquet path (C04's subject) from one of the cluster
    pub mem: ExecutionContext,
}

impl Drop for World {
    fn drop(&mut self) {
        let _ = std::fs::remove_dir_all(&self.root);
    }
}

pub struct WorldParams {
    pub n_tables: usize,
    pub n_nodes: usize,
    pub max_rows: usize,
    pub max_files: usize,
    pub same_name_dirs16: u64,
    /// restrict every table to at most this many rows (shrinker)
    pub row_cap: Option<usize>,
    /// also write and register a table `kw` whose column names are SQL keywords (`user`,
    /// `true`, `order`); it is not offered to the statement generator (bare keyword names do
    /// not parse as columns), checks that want it add statements with quoted identifiers
    pub keyword_table: bool,
}

pub fn make_config() -> ExecutionConfig {
    ExecutionConfig::default()
}

pub fn register(ctx: &mut ExecutionContext, name: &str, files: &[PathBuf]) -> Result<(), String> {
    let t = ParquetTable::try_from_files(files.to_vec()).map_err(|e| e.to_string())?;
    ctx.register_table_provider(name, Arc::new(t));
    Ok(())
}

pub fn build(rng: &mut Rng, p: &WorldParams) -> World {
    let root = fresh_dir("cluster");
    let mut tables = Vec::new();
    let mut layouts = Vec::new();
    let names = ["t0", "t1", "t2"];
    for i in 0..p.n_tables {
        let prof = GenProfile {
            min_rows: 1,
            max_rows: if i == 0 { p.max_rows } else { (p.max_rows / 4).max(8) },
            empty16: if i == 0 { 1 } else { 1 },
            force_cols: if i == 0 { None } else { Some(vec!["k"]) },
            max_extra_cols: 6,
        };
        let mut t = datagen::gen_table(&mut rng.fork(100 + i as u64), names[i], &prof);
        if let Some(cap) = p.row_cap {
            if t.rows > cap {
                t = t.restrict(0, cap);
            }
        }
        let mut lr = rng.fork(200 + i as u64);
        let mut lay = datagen::gen_layout(&mut lr, t.rows, p.max_files);
        lay.same_name_dirs = lr.chance(p.same_name_dirs16, 16);
        tables.push(t);
        layouts.push(lay);
    }
    let mut extra: Vec<(datagen::Table, datagen::ParquetLayout)> = Vec::new();
    if p.keyword_table {
        let mut kr = rng.fork(0x6b77);
        let rows = 30 + kr.usize(170);
        let t = datagen::Table {
            name: "kw".into(),
            cols: vec![
                datagen::ColSpec { name: "id".into(), ty: datagen::Ty::I64, nulls16: 0, unique: true },
                datagen::ColSpec { name: "user".into(), ty: datagen::Ty::I64, nulls16: 1, unique: false },
                datagen::ColSpec { name: "true".into(), ty: datagen::Ty::Bool, nulls16: 2, unique: false },
                datagen::ColSpec { name: "order".into(), ty: datagen::Ty::I64, nulls16: 0, unique: false },
            ],
            data: vec![
                datagen::ColData::I64((0..rows as i64).map(Some).collect()),
                datagen::ColData::I64((0..rows).map(|_| if kr.below(16) < 1 { None } else { Some(kr.range(0, 9)) }).collect()),
                datagen::ColData::Bool((0..rows).map(|_| if kr.below(16) < 2 { None } else { Some(kr.coin()) }).collect()),
                datagen::ColData::I64((0..rows).map(|_| Some(kr.range(0, 20))).collect()),
            ],
            rows,
        };
        let lay = datagen::gen_layout(&mut kr, t.rows, p.max_files);
        extra.push((t, lay));
    }
    // node 0 writes; other nodes get byte-identical copies under their own mount
    let mut nodes = Vec::new();
    let mut node0_files: Vec<(String, Vec<PathBuf>)> = Vec::new();
    let d0 = root.join("node0").join("data");
    for (t, lay) in tables.iter().zip(&layouts).chain(extra.iter().map(|(t, l)| (t, l))) {
        let files = datagen::write_parquet(t, &d0.join(&t.name), lay).expect("write parquet");
        node0_files.push((t.name.clone(), files));
    }
    let mut single = ExecutionContext::with_config(make_config());
    for (name, files) in &node0_files {
        register(&mut single, name, files).expect("register single");
    }
    for n in 0..p.n_nodes {
        let mut nr = rng.fork(300 + n as u64);
        let mount = root.join(format!("node{n}")).join(if n == 0 { "data".to_string() } else { format!("mnt{}", nr.below(1000)) });
        let mut files_here: Vec<(String, Vec<PathBuf>)> = Vec::new();
        for (name, files) in &node0_files {
            let mut mine = Vec::new();
            for f in files {
                if n == 0 {
                    mine.push(f.clone());
                } else {
                    let rel = f.strip_prefix(&d0).expect("under node0 root");
                    let dst = mount.join(rel);
                    std::fs::create_dir_all(dst.parent().unwrap()).expect("mkdir");
                    std::fs::copy(f, &dst).expect("copy");
                    mine.push(dst);
                }
            }
            // each node lists its files in its own order
            if nr.coin() {
                nr.shuffle(&mut mine);
            }
            files_here.push((name.clone(), mine));
        }
        let mut ctx = ExecutionContext::with_config(make_config());
        for (name, files) in &files_here {
            register(&mut ctx, name, files).expect("register node");
        }
        nodes.push(NodeData { files: files_here, ctx: Arc::new(ctx), address: format!("10.7.0.{}:7777", n + 1), node_id: n as u64 });
    }
    let mut mem = ExecutionContext::with_config(make_config());
    for t in tables.iter().chain(extra.iter().map(|(t, _)| t)) {
        mem.register_table(&t.name, t.schema(), t.one_batch());
    }
    World { root, tables, layouts, nodes, single, mem }
}

impl World {
    /// Participants as node `initiator` sees them: every node, sorted by address (the
    /// order `Membership::members` renders), the initiator flagged as self.
    pub fn participants(&self, initiator: usize, count: usize) -> Vec<Participant> {
        let mut ps: Vec<Participant> = self.nodes[..count]
            .iter()
            .enumerate()
            .map(|(i, n)| Participant { node_id: n.node_id, address: n.address.clone(), is_self: i == initiator })
            .collect();
        ps.sort_by(|a, b| a.address.cmp(&b.address));
        ps
    }
    pub fn node_by_address(&self, addr: &str) -> Option<usize> {
        self.nodes.iter().position(|n| n.address == addr)
    }
    pub fn describe(&self) -> serde_json::Value {
        serde_json::json!({
            "nodes": self.nodes.len(),
            "tables": self.tables.iter().zip(&self.layouts).map(|(t, l)| serde_json::json!({
                "name": t.name, "rows": t.rows,
                "cols": t.cols.iter().map(|c| format!("{}:{:?}", c.name, c.ty)).collect::<Vec<_>>(),
                "files": l.file_cuts.len() + 1, "row_group_rows": l.row_group_rows, "empty_row_groups": l.empty_row_groups,
                "dictionary": l.dictionary, "stats": l.stats, "same_name_dirs": l.same_name_dirs,
            })).collect::<Vec<_>>(),
        })
    }
}
