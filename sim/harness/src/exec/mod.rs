//! exec-sim: one engine under a seeded *world* (storage layout, batch split, worker
//! count, memory budget, planner knobs); every world is compared with the scenario's
//! baseline world (memory storage, one batch, one worker, unlimited budget).

use crate::cluster::runs::{compare, err_token};
use crate::cluster::world::fresh_dir;
use crate::cluster::{outcome_of, violation, Outcome};
use crate::kit::datagen::{self, GenProfile, ParquetLayout, Table};
use crate::kit::planfeat::plan_features;
use crate::kit::report::{RunOut, Tier, Violation};
use crate::kit::rng::{fnv, Rng};
use crate::kit::sqlgen::{self, Family, Stmt};
use query_engine::{ExecutionConfig, ExecutionContext, ParquetTable};
use serde_json::{json, Value};
use std::path::PathBuf;
use std::sync::Arc;

#[derive(Clone, Debug)]
pub enum Storage {
    Memory { cuts: Vec<Vec<usize>> },
    Parquet { layouts: Vec<ParquetLayout> },
}

#[derive(Clone, Debug)]
pub struct ExecWorld {
    pub label: String,
    pub storage: Storage,
    pub threads: usize,
    /// 0 = current_thread (paused clock), k = multi-thread runtime with k workers
    pub tokio_workers: usize,
    pub memory_limit: Option<usize>,
    pub spill_threshold: Option<f64>,
    pub batch_size: Option<usize>,
    pub morsel: bool,
    pub knobs: Vec<(String, i64)>,
    /// virtual worker count: partition counts as if this many workers existed, while every
    /// task still runs on the one simulated thread (sets `scan.partitions` and the
    /// configuration's parallel_partitions)
    pub virt_partitions: Option<usize>,
    /// seeded scheduling coin: probability (out of 256) that a task gives up its turn at a
    /// scheduling point
    pub sched_p256: Option<u64>,
    /// armed spill I/O faults: (site, fail on this 0-based hit of the site, per statement)
    pub faults: Vec<(String, u64)>,
}

/// What a world's run recorded besides the outcomes.
#[derive(Default, Debug)]
pub struct WorldTrace {
    /// per statement: (hash of the scheduling trace, points passed, yields taken)
    /// the flag: the statement passed through an operator that hands work to real blocking
    /// threads, so the order of its trace is not decided by the simulator alone
    pub sched: Vec<(u64, usize, usize, bool)>,
    /// per statement: fault sites that fired
    pub fired: Vec<Vec<String>>,
    /// hits per fault site over the whole world
    pub hits: std::collections::BTreeMap<String, u64>,
}

impl ExecWorld {
    pub fn baseline(n_tables: usize) -> Self {
        ExecWorld {
            label: "baseline".into(),
            storage: Storage::Memory { cuts: vec![vec![]; n_tables] },
            threads: 1,
            tokio_workers: 0,
            memory_limit: None,
            spill_threshold: None,
            batch_size: None,
            morsel: true,
            knobs: vec![],
            virt_partitions: None,
            sched_p256: None,
            faults: vec![],
        }
    }
    pub fn describe(&self) -> Value {
        json!({
            "label": self.label,
            "storage": match &self.storage {
                Storage::Memory { cuts } => json!({"memory_batches": cuts.iter().map(|c| c.len() + 1).collect::<Vec<_>>()}),
                Storage::Parquet { layouts } => json!({"parquet": layouts.iter().map(|l| json!({"files": l.file_cuts.len() + 1, "rg_rows": l.row_group_rows, "dict": l.dictionary, "stats": l.stats, "empty_rgs": l.empty_row_groups})).collect::<Vec<_>>()}),
            },
            "threads": self.threads, "tokio_workers": self.tokio_workers,
            "memory_limit": self.memory_limit, "spill_threshold": self.spill_threshold, "batch_size": self.batch_size,
            "morsel": self.morsel, "knobs": self.knobs,
            "virt_partitions": self.virt_partitions, "sched_p256": self.sched_p256, "faults": self.faults,
        })
    }
    pub fn features(&self) -> Vec<String> {
        let mut f = Vec::new();
        match &self.storage {
            Storage::Memory { cuts } => {
                if cuts.iter().any(|c| !c.is_empty()) {
                    f.push("storage:memory-multibatch".into());
                } else {
                    f.push("storage:memory".into());
                }
            }
            Storage::Parquet { layouts } => {
                f.push("storage:parquet".into());
                if layouts.iter().any(|l| !l.empty_row_groups.is_empty()) {
                    f.push("layout:empty_row_groups".into());
                }
            }
        }
        if self.threads > 1 {
            f.push("threads:many".into());
        }
        if self.tokio_workers > 0 {
            f.push("tokio:multi".into());
        }
        if self.memory_limit.is_some() {
            f.push("budget:limited".into());
        }
        if !self.morsel {
            f.push("morsel:off".into());
        }
        for (k, v) in &self.knobs {
            f.push(format!("knob:{k}={v}"));
        }
        if self.virt_partitions.is_some() {
            f.push("virtual-partitions".into());
        }
        if self.sched_p256.is_some() {
            f.push("sched:seeded-yields".into());
        }
        for (site, _) in &self.faults {
            f.push(format!("fault:{site}"));
        }
        f
    }
}

pub struct Scenario {
    pub tables: Vec<Table>,
    pub stmts: Vec<Stmt>,
}

pub struct Built {
    pub ctx: ExecutionContext,
    pub dir: Option<PathBuf>,
}

impl Drop for Built {
    fn drop(&mut self) {
        if let Some(d) = &self.dir {
            let _ = std::fs::remove_dir_all(d);
        }
    }
}

pub fn build_ctx(sc: &Scenario, w: &ExecWorld) -> Built {
    let dir = fresh_dir("exec");
    let mut cfg = ExecutionConfig::default().with_spill_path(dir.join("spill"));
    if let Some(m) = w.memory_limit {
        cfg = cfg.with_memory_limit(m);
    }
    if let Some(t) = w.spill_threshold {
        cfg.spill_threshold = t;
    }
    if let Some(b) = w.batch_size {
        cfg = cfg.with_batch_size(b);
    }
    cfg = cfg.with_morsel_execution(w.morsel);
    let mut ctx = ExecutionContext::with_config(cfg);
    if let Some(k) = w.virt_partitions {
        ctx = ctx.with_parallel_partitions(k);
    }
    match &w.storage {
        Storage::Memory { cuts } => {
            for (t, c) in sc.tables.iter().zip(cuts) {
                ctx.register_table(&t.name, t.schema(), t.batches(c));
            }
        }
        Storage::Parquet { layouts } => {
            for (t, l) in sc.tables.iter().zip(layouts) {
                let files = datagen::write_parquet(t, &dir.join(&t.name), l).expect("write parquet");
                let p = ParquetTable::try_from_files(files).expect("parquet table");
                ctx.register_table_provider(&t.name, Arc::new(p));
            }
        }
    }
    Built { ctx, dir: Some(dir) }
}

/// Execute every statement of the scenario in the world; returns the outcomes and the
/// physical plan text of each statement.
pub fn run_world(sc: &Scenario, w: &ExecWorld, seed: u64) -> Vec<(Outcome, String)> {
    run_world_traced(sc, w, seed).0
}

/// As `run_world`, and also the hash of each statement's scheduling trace (the sequence of
/// (site, yielded) decisions taken at the engine's scheduling points) and the number of
/// yields taken; empty when the world installs no coin.
pub fn run_world_traced(sc: &Scenario, w: &ExecWorld, seed: u64) -> (Vec<(Outcome, String)>, WorldTrace) {
    #[cfg(qe_verif)]
    {
        query_engine::verif::knobs::clear();
        for (k, v) in &w.knobs {
            query_engine::verif::knobs::set(k, *v);
        }
        if let Some(k) = w.virt_partitions {
            query_engine::verif::knobs::set("scan.partitions", k as i64);
        }
        if w.threads == 1 && w.tokio_workers == 0 {
            query_engine::verif::knobs::set("subquery.single_thread_runtime", 1);
        }
    }
    let traces: std::sync::Mutex<WorldTrace> = std::sync::Mutex::new(WorldTrace::default());
    let body = || {
        let rt = if w.tokio_workers == 0 {
            tokio::runtime::Builder::new_current_thread()
                .enable_all()
                .start_paused(true)
                .rng_seed(tokio::runtime::RngSeed::from_bytes(&seed.to_le_bytes()))
                .build()
                .expect("runtime")
        } else {
            tokio::runtime::Builder::new_multi_thread().worker_threads(w.tokio_workers).enable_all().build().expect("runtime")
        };
        rt.block_on(async {
            let built = build_ctx(sc, w);
            let mut out = Vec::new();
            for (si, st) in sc.stmts.iter().enumerate() {
                #[cfg(qe_verif)]
                if let Some(p) = w.sched_p256 {
                    if w.tokio_workers == 0 {
                        query_engine::verif::sched::install(crate::kit::rng::mix(&[seed, 0x5c4ed, si as u64]), p);
                    }
                }
                #[cfg(qe_verif)]
                if !w.faults.is_empty() {
                    query_engine::verif::fault::reset();
                    query_engine::verif::fault::set_counting(true);
                    for (site, on_hit) in &w.faults {
                        query_engine::verif::fault::arm(site, *on_hit, std::io::ErrorKind::Other);
                    }
                }
                let _ = si;
                let plan = match built.ctx.physical_plan(&st.sql) {
                    Ok(p) => query_engine::physical::display_plan(p.as_ref(), 0),
                    Err(_) => String::new(),
                };
                use futures::FutureExt;
                let r = std::panic::AssertUnwindSafe(built.ctx.sql(&st.sql)).catch_unwind().await;
                let o = match r {
                    Ok(r) => outcome_of(r),
                    Err(p) => {
                        let msg = p.downcast_ref::<String>().cloned().or_else(|| p.downcast_ref::<&str>().map(|s| s.to_string())).unwrap_or_default();
                        Outcome::Err { class: "panic", msg: format!("panicked: {msg}") }
                    }
                };
                #[cfg(qe_verif)]
                if let Some(st) = query_engine::verif::sched::take() {
                    let mut h = 0xcbf29ce484222325u64;
                    let mut yields = 0usize;
                    for (site, y) in &st.trace {
                        h = (h ^ fnv(site.as_bytes()) ^ (*y as u64)).wrapping_mul(0x100000001b3);
                        yields += *y as usize;
                    }
                    if std::env::var("VERIF_DUMP_LOG").is_ok() {
                        eprintln!("TRACE {} {:?}", w.label, st.trace);
                    }
                    let real_threads = st.trace.iter().any(|(site, _)| site.starts_with("spill_agg."));
                    traces.lock().unwrap().sched.push((h, st.trace.len(), yields, real_threads));
                }
                #[cfg(qe_verif)]
                if !w.faults.is_empty() {
                    let (hits, fired) = query_engine::verif::fault::reset();
                    query_engine::verif::fault::set_counting(false);
                    let mut t = traces.lock().unwrap();
                    for (k, n) in hits {
                        *t.hits.entry(k).or_insert(0) += n;
                    }
                    t.fired.push(fired);
                }
                out.push((o, plan));
            }
            out
        })
    };
    // A multi-threaded tokio runtime's workers are not members of a locally installed
    // rayon pool and would see the GLOBAL pool's size while the planning thread sees the
    // local one; the engine derives partition counts from that number, so such worlds use
    // the process-global pool (sized per worker process through RAYON_NUM_THREADS), as a
    // shipped process does.
    let out = if w.tokio_workers > 0 {
        body()
    } else {
        let pool = rayon::ThreadPoolBuilder::new().num_threads(w.threads.max(1)).build().expect("rayon pool");
        pool.install(body)
    };
    #[cfg(qe_verif)]
    query_engine::verif::knobs::clear();
    (out, traces.into_inner().unwrap())
}

fn ovu(ov: &Value, k: &str) -> Option<usize> {
    ov.get(k).and_then(|v| v.as_u64()).map(|v| v as usize)
}

pub fn gen_scenario(rng: &Rng, ov: &Value, min_rows: usize, max_rows: usize, fams: &[Family], n_stmts: usize) -> Scenario {
    let mut tr = rng.fork(1);
    let n_tables = 1 + tr.usize(3);
    let mut tables = Vec::new();
    for i in 0..n_tables {
        let prof = GenProfile {
            min_rows: if i == 0 { min_rows } else { 1 },
            max_rows: if i == 0 { max_rows } else { (max_rows / 4).max(8) },
            empty16: if i == 0 && min_rows > 1 { 0 } else { 1 },
            force_cols: if i == 0 { None } else { Some(vec!["k"]) },
            max_extra_cols: 6,
        };
        let mut t = datagen::gen_table(&mut tr.fork(100 + i as u64), ["t0", "t1", "t2"][i], &prof);
        if let Some(cap) = ovu(ov, "row_cap") {
            if t.rows > cap {
                t = t.restrict(0, cap);
            }
        }
        tables.push(t);
    }
    let mut sr = rng.fork(2);
    let mut stmts = sqlgen::gen_many(&mut sr, &tables, fams, n_stmts);
    if let Some(only) = ovu(ov, "only_stmt") {
        if only < stmts.len() {
            stmts = vec![stmts[only].clone()];
        }
    }
    Scenario { tables, stmts }
}

pub fn shrink_candidates(ov: &Value, v: &Violation) -> Vec<Value> {
    let mut out = Vec::new();
    let base = if ov.is_object() { ov.clone() } else { json!({}) };
    if base.get("only_stmt").is_none() {
        if let Some(i) = v.context.get("stmt_index").and_then(|x| x.as_u64()) {
            let mut c = base.clone();
            c["only_stmt"] = json!(i);
            out.push(c);
        }
    }
    if base.get("only_world").is_none() {
        if let Some(i) = v.context.get("world_index").and_then(|x| x.as_u64()) {
            let mut c = base.clone();
            c["only_world"] = json!(i);
            out.push(c);
        }
    }
    let cap = base.get("row_cap").and_then(|x| x.as_u64()).unwrap_or(8000);
    for next in [cap / 8, cap / 2, cap * 3 / 4] {
        if next >= 1 && next < cap {
            let mut c = base.clone();
            c["row_cap"] = json!(next);
            out.push(c);
        }
    }
    out
}

/// Operators named in a physical plan text, as features.
pub fn plan_ops(plan: &str) -> Vec<String> {
    let mut ops: Vec<String> = plan.lines().map(|l| l.trim().to_string()).filter(|l| !l.is_empty()).collect();
    ops.sort();
    ops.dedup();
    ops.into_iter().map(|o| format!("op:{o}")).collect()
}

#[derive(Clone, Copy, PartialEq)]
pub enum Prop {
    C04,
    C07,
    C08,
}

fn gen_worlds(prop: Prop, rng: &mut Rng, sc: &Scenario, tier: Tier) -> Vec<ExecWorld> {
    let nt = sc.tables.len();
    let mut ws = Vec::new();
    let many = if tier == Tier::Thorough { 2 } else { 1 };
    match prop {
        Prop::C04 => {
            for i in 0..3 * many {
                let layouts: Vec<ParquetLayout> = sc.tables.iter().map(|t| datagen::gen_layout(rng, t.rows, 5)).collect();
                let mut w = ExecWorld::baseline(nt);
                w.label = format!("parquet{i}");
                w.storage = Storage::Parquet { layouts };
                w.morsel = rng.chance(3, 4);
                w.threads = *rng.pick(&[1usize, 1, 1, 4]);
                if w.threads > 1 {
                    w.threads = 1; // kept deterministic; worker-count dependence is C07's subject
                }
                ws.push(w);
            }
            // a multi-batch memory world tells "Parquet vs memory" from "many batches vs one"
            let mut w = ExecWorld::baseline(nt);
            w.label = "memory-batches".into();
            w.storage = Storage::Memory { cuts: sc.tables.iter().map(|t| datagen::gen_cuts(rng, t.rows, 6)).collect() };
            ws.push(w);
        }
        Prop::C07 => {
            for i in 0..3 * many {
                let mut w = ExecWorld::baseline(nt);
                w.label = format!("split{i}");
                w.storage = Storage::Memory { cuts: sc.tables.iter().map(|t| datagen::gen_cuts_holes(rng, t.rows, 14)).collect() };
                // the partition count follows the rayon worker count as shipped
                w.threads = *rng.pick(&[1usize, 2, 3, 4, 8, 16]);
                w.tokio_workers = *rng.pick(&[0usize, 0, 2, 4]);
                ws.push(w);
            }
            // deterministic tier: the partition counts of a k-worker process, every task on
            // the one simulated thread, and a seeded coin at the engine's scheduling points
            // deciding who gives up its turn -- one seed, one interleaving, replayable
            for i in 0..3 * many {
                let mut w = ExecWorld::baseline(nt);
                w.label = format!("virt{i}");
                w.storage = Storage::Memory { cuts: sc.tables.iter().map(|t| datagen::gen_cuts_holes(rng, t.rows, 14)).collect() };
                w.virt_partitions = Some(*rng.pick(&[2usize, 3, 4, 5, 8, 13]));
                w.sched_p256 = Some(*rng.pick(&[0u64, 32, 96, 160, 224]));
                if rng.chance(1, 4) {
                    w.batch_size = Some(*rng.pick(&[64usize, 512, 1024]));
                }
                ws.push(w);
            }
        }
        Prop::C08 => {
            // the budget is swept over the scenario's own sizes so every spill decision flips
            let approx: usize = sc.tables.iter().map(|t| t.rows * t.cols.len() * 12).sum::<usize>().max(64);
            for i in 0..4 * many {
                let mut w = ExecWorld::baseline(nt);
                w.label = format!("budget{i}");
                w.storage = Storage::Memory { cuts: sc.tables.iter().map(|t| datagen::gen_cuts(rng, t.rows, 8)).collect() };
                let lim = match rng.below(6) {
                    0 => 64 + rng.usize(2000),
                    1 => approx / 64 + 1,
                    2 => approx / 8 + 1,
                    3 => approx / 2 + 1,
                    4 => approx + rng.usize(approx),
                    _ => {
                        let e = 6 + rng.below(18);
                        1usize << e
                    }
                };
                w.memory_limit = Some(lim);
                w.spill_threshold = Some(*rng.pick(&[0.8, 0.8, 0.5, 0.1, 1.0]));
                if rng.chance(1, 3) {
                    w.batch_size = Some(*rng.pick(&[1usize, 7, 64, 1024]));
                }
                // disk faults inside the spill paths: the k-th write / append / read / merge of
                // a spill file fails; the answer must still be the unlimited one or an error
                if rng.chance(1, 3) {
                    let site = *rng.pick(&["spill.write", "spill.write", "spill.read", "spill.read", "spill.append", "spill.merge"]);
                    let on_hit = *rng.pick(&[0u64, 0, 1, 2, 3, 5, 9]);
                    w.faults.push((site.to_string(), on_hit));
                }
                ws.push(w);
            }
        }
    }
    ws
}

pub fn run_prop(prop: Prop, tier: Tier, run_seed: u64, ov: &Value) -> RunOut {
    let rng = Rng::new(run_seed);
    let mut out = RunOut::default();
    let (clause, fams, n_stmts, min_rows, max_rows): (&str, &[Family], usize, usize, usize) = match prop {
        Prop::C04 => ("layout-invariance", sqlgen::ALL_FAMILIES, 10, 1, 3000),
        Prop::C07 => ("parallelism-invariance", sqlgen::ALL_FAMILIES, 8, 1000, 6000),
        Prop::C08 => (
            "memory-budget-invariance",
            &[Family::TopN, Family::SortAll, Family::GroupAgg, Family::GroupAgg, Family::Join, Family::JoinAgg, Family::GlobalAgg, Family::Distinct, Family::SetOp, Family::SelfJoin],
            8,
            200,
            4000,
        ),
    };
    let sc = gen_scenario(&rng, ov, min_rows, max_rows, fams, n_stmts);
    let mut wr = rng.fork(7);
    let mut worlds = gen_worlds(prop, &mut wr, &sc, tier);
    if let Some(only) = ovu(ov, "only_world") {
        if only < worlds.len() {
            worlds = vec![worlds[only].clone()];
        }
    }
    let base = run_world(&sc, &ExecWorld::baseline(sc.tables.len()), run_seed);
    let mut log: Vec<String> = vec![format!("tables={:?}", sc.tables.iter().map(|t| (t.name.clone(), t.rows, t.cols.len())).collect::<Vec<_>>())];
    for (si, st) in sc.stmts.iter().enumerate() {
        log.push(format!("{si} {} base={}", st.sql, base[si].0.tag()));
    }
    for (wi, w) in worlds.iter().enumerate() {
        let (got, traces) = run_world_traced(&sc, w, run_seed ^ (wi as u64 + 1));
        let deterministic_world = w.threads == 1 && w.tokio_workers == 0;
        for (site, _) in &w.faults {
            out.bump(&format!("fault.{site}.armed"));
        }
        for (site, n) in &traces.hits {
            out.add(&format!("n.site_hits.{site}"), *n);
        }
        for fired in &traces.fired {
            for site in fired {
                out.bump(&format!("fault.{site}.fired"));
            }
        }
        for (h, points, yields, real_threads) in &traces.sched {
            out.bump("sched.statements_with_coin");
            out.add("sched.points_passed", *points as u64);
            out.add("sched.yields_taken", *yields as u64);
            if *yields > 0 {
                out.bump("probe.sched_yield_taken");
            }
            if *real_threads {
                out.bump("n.sched.traces_through_real_blocking_threads");
            } else if deterministic_world {
                log.push(format!("w{wi} trace {h:x} {points} {yields}"));
            }
        }
        for (si, st) in sc.stmts.iter().enumerate() {
            let (b, _bplan) = &base[si];
            let (g, gplan) = &got[si];
            if deterministic_world {
                log.push(format!("w{wi} s{si} {}", g.tag()));
            }
            out.bump(&format!("n.family.{}", st.family));
            for op in ["ExternalSort", "SpillableHashJoin", "SpillableHashAggregate", "MorselAggregate", "StreamingParquetScan", "HashJoin", "Union", "Limit", "DelimJoin"] {
                if gplan.contains(op) {
                    out.bump(&format!("probe.plan_has_{op}"));
                }
            }
            let verdict: Result<(), (String, String)> = match (b, g) {
                (Outcome::Rows(_), Outcome::Rows(_)) => {
                    if traces.fired.get(si).map(|f| !f.is_empty()).unwrap_or(false) {
                        out.bump("probe.rows_after_fired_disk_fault");
                    }
                    compare(st, b, g)
                }
                (Outcome::Rows(_), Outcome::Err { class, msg }) => {
                    if prop == Prop::C08 {
                        out.bump("probe.explicit_error_under_budget");
                        if msg.contains("injected fault") {
                            out.bump("probe.injected_disk_fault_surfaced_as_error");
                        }
                        Ok(())
                    } else {
                        Err((format!("error-instead-of-rows:{class}"), msg.clone()))
                    }
                }
                (Outcome::Err { class, msg }, Outcome::Rows(_)) => {
                    if prop == Prop::C08 {
                        Ok(())
                    } else {
                        Err((format!("rows-instead-of-error:{class}"), format!("baseline failed ({msg}) but this world answered")))
                    }
                }
                (Outcome::Err { .. }, Outcome::Err { .. }) => Ok(()),
            };
            if matches!(b, Outcome::Rows(_)) {
                // in a coin world the scheduling trace is part of the case: same plan and world under another interleaving is another case
                let th = traces.sched.get(si).map(|t| t.0).unwrap_or(0);
                out.case_hashes.push(fnv(gplan.as_bytes()) ^ fnv(w.describe().to_string().as_bytes()) ^ fnv(st.family.as_bytes()) ^ th);
            }
            if let Err((sym, d)) = verdict {
                let mut f = vec![format!("family:{}", st.family)];
                f.extend(st.features.iter().cloned());
                f.extend(w.features());
                f.extend(plan_ops(gplan));
                if let Outcome::Err { msg, .. } = g {
                    f.push(format!("err:{}", err_token(msg)));
                }
                if let Outcome::Err { msg, .. } = b {
                    f.push(format!("base_err:{}", err_token(msg)));
                }
                if st.sql.contains(" LIMIT ") {
                    f.push("has_limit".into());
                }
                let bctx = build_ctx(&sc, &ExecWorld::baseline(sc.tables.len()));
                f.extend(plan_features(&bctx.ctx, &st.sql));
                if let Storage::Parquet { .. } = w.storage {
                    let wctx = build_ctx(&sc, w);
                    for pf in plan_features(&wctx.ctx, &st.sql) {
                        if !f.contains(&pf) {
                            f.push(pf);
                        }
                    }
                }
                let mut v = violation(clause, &sym, f, format!("{} in world {}: {d}", st.sql, w.label),
                    json!({"stmt_index": si, "world_index": wi, "sql": st.sql, "world": w.describe(), "plan": gplan,
                           "baseline": b.brief(), "observed": g.brief(),
                           "tables": sc.tables.iter().map(|t| json!({"name": t.name, "rows": t.rows, "cols": t.cols.iter().map(|c| format!("{}:{:?}", c.name, c.ty)).collect::<Vec<_>>()})).collect::<Vec<_>>()}));
                v.overrides = if ov.is_object() { ov.clone() } else { json!({}) };
                if !deterministic_world {
                    v.features.push("sampled-real-threads".into());
                }
                out.violations.push(v);
            }
        }
    }
    out.sample = Some(json!({"tables": sc.tables.iter().map(|t| (t.name.clone(), t.rows)).collect::<Vec<_>>(), "worlds": worlds.iter().map(|w| w.describe()).collect::<Vec<_>>(), "stmts": sc.stmts.iter().take(3).map(|s| s.sql.clone()).collect::<Vec<_>>()}));
    out.log_hash = fnv(log.join("\n").as_bytes());
    if std::env::var("VERIF_DUMP_LOG").is_ok() {
        eprintln!("{}", log.join("\n"));
    }
    out
}

pub fn run_c04(_p: &str, tier: Tier, seed: u64, ov: &Value) -> RunOut {
    run_prop(Prop::C04, tier, seed, ov)
}
pub fn run_c07(_p: &str, tier: Tier, seed: u64, ov: &Value) -> RunOut {
    run_prop(Prop::C07, tier, seed, ov)
}
pub fn run_c08(_p: &str, tier: Tier, seed: u64, ov: &Value) -> RunOut {
    run_prop(Prop::C08, tier, seed, ov)
}

/// Debugging aid: rebuild a replay's scenario and world, run one SQL in the baseline and
/// in that world, print plans and rows.
pub fn debug(prop: Prop, doc: &Value, sql_override: Option<&str>) {
    let run_seed = doc["run_seed"].as_u64().unwrap();
    let ov = &doc["overrides"];
    let tier = Tier::parse(doc["tier"].as_str().unwrap_or("quick"));
    let rng = Rng::new(run_seed);
    let (_c, fams, n_stmts, min_rows, max_rows): (&str, &[Family], usize, usize, usize) = match prop {
        Prop::C04 => ("", sqlgen::ALL_FAMILIES, 10, 1, 3000),
        Prop::C07 => ("", sqlgen::ALL_FAMILIES, 8, 1000, 6000),
        Prop::C08 => ("", &[Family::TopN, Family::SortAll, Family::GroupAgg, Family::GroupAgg, Family::Join, Family::JoinAgg, Family::GlobalAgg, Family::Distinct, Family::SetOp, Family::SelfJoin], 8, 200, 4000),
    };
    let mut sc = gen_scenario(&rng, ov, min_rows, max_rows, fams, n_stmts);
    let mut wr = rng.fork(7);
    let worlds = gen_worlds(prop, &mut wr, &sc, tier);
    // a shrunk replay pins its world through the override; its context index is then 0
    let wi = ovu(ov, "only_world").unwrap_or(doc["context"]["world_index"].as_u64().unwrap_or(0) as usize);
    let w = worlds[wi.min(worlds.len() - 1)].clone();
    let sql = sql_override.map(String::from).unwrap_or_else(|| doc["context"]["sql"].as_str().unwrap_or("").to_string());
    // keep the statement at its index in the run: the scheduling coin is seeded per index
    let si = if ov.get("only_stmt").is_some() { 0 } else { doc["context"]["stmt_index"].as_u64().unwrap_or(0) as usize };
    sc.stmts = (0..si).map(|_| Stmt { sql: "SELECT 1".into(), family: "debug", order_keys: vec![], tables: vec![], features: vec![] }).collect();
    sc.stmts.push(Stmt { sql: sql.clone(), family: "debug", order_keys: vec![], tables: vec![], features: vec![] });
    println!("tables: {:?}", sc.tables.iter().map(|t| (t.name.clone(), t.rows, t.cols.iter().map(|c| format!("{}:{:?}/{}", c.name, c.ty, c.nulls16)).collect::<Vec<_>>())).collect::<Vec<_>>());
    println!("world: {}", w.describe());
    let mut rendered: Vec<Vec<String>> = Vec::new();
    for (name, world) in [("baseline", ExecWorld::baseline(sc.tables.len())), ("world", w)] {
        // the same per-world seed as the run (it seeds the scheduling coin)
        let r = run_world(&sc, &world, if name == "world" { run_seed ^ (wi as u64 + 1) } else { run_seed });
        let r = vec![r.into_iter().last().unwrap()];
        if let Outcome::Rows(rows) = &r[0].0 {
            let mut l: Vec<String> = rows.iter().map(crate::kit::canon::render_row).collect();
            l.sort();
            rendered.push(l);
        }
        println!("== {name} plan:\n{}", r[0].1);
        match &r[0].0 {
            Outcome::Rows(rows) => {
                let mut lines: Vec<String> = rows.iter().map(crate::kit::canon::render_row).collect();
                lines.sort();
                println!("== {name}: {} rows", rows.len());
                for l in lines.iter().take(50) {
                    println!("   {l}");
                }
            }
            Outcome::Err { class, msg } => println!("== {name}: ERR {class}: {msg}"),
        }
    }
    if rendered.len() == 2 {
        let (a, b) = (&rendered[0], &rendered[1]);
        let mut bm: std::collections::BTreeMap<&String, i64> = Default::default();
        for x in a {
            *bm.entry(x).or_insert(0) += 1;
        }
        for x in b {
            *bm.entry(x).or_insert(0) -= 1;
        }
        println!("== multiset difference (+ only in baseline, - only in world):");
        for (k, n) in bm.iter().filter(|(_, n)| **n != 0).take(40) {
            println!("   {}{} x{}", if *n > 0 { "+" } else { "-" }, k, n.abs());
        }
    }
}
