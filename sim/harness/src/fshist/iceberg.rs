//! C17 — an Iceberg snapshot reads exactly its live data files.
//!
//! A reference writer (apache-avro + serde_json) performs seeded commits the way an
//! Iceberg writer does and keeps a ledger: per snapshot, the set of live data files and
//! the rows the harness put in them.

use crate::cluster::world::fresh_dir;
use crate::cluster::{outcome_of, Outcome};
use crate::kit::canon::{self, Cell};
use crate::kit::datagen::{self, ColData, ColSpec, ParquetLayout, Table, Ty};
use crate::kit::report::{RunOut, Tier, Violation};
use crate::kit::rng::{fnv, Rng};
use apache_avro::types::Value as Av;
use apache_avro::{Schema, Writer};
use query_engine::ExecutionContext;
use serde_json::{json, Value};
use std::collections::{BTreeMap, BTreeSet};
use std::path::{Path, PathBuf};

fn viol(clause: &str, symptom: &str, features: Vec<String>, detail: String, context: Value) -> Violation {
    Violation { clause: clause.into(), symptom: symptom.into(), features, detail, overrides: json!({}), context }
}

const MANIFEST_LIST_SCHEMA: &str = r#"{"type":"record","name":"manifest_file","fields":[
  {"name":"manifest_path","type":"string"},
  {"name":"manifest_length","type":"long"},
  {"name":"partition_spec_id","type":"int"},
  {"name":"added_snapshot_id","type":["null","long"],"default":null}]}"#;

const MANIFEST_SCHEMA_V2: &str = r#"{"type":"record","name":"manifest_entry","fields":[
  {"name":"status","type":"int"},
  {"name":"snapshot_id","type":["null","long"],"default":null},
  {"name":"data_file","type":{"type":"record","name":"r2","fields":[
     {"name":"content","type":"int"},
     {"name":"file_path","type":"string"},
     {"name":"file_format","type":"string"},
     {"name":"record_count","type":"long"},
     {"name":"file_size_in_bytes","type":"long"}]}}]}"#;

const MANIFEST_SCHEMA_V1: &str = r#"{"type":"record","name":"manifest_entry","fields":[
  {"name":"status","type":"int"},
  {"name":"snapshot_id","type":["null","long"],"default":null},
  {"name":"data_file","type":{"type":"record","name":"r2","fields":[
     {"name":"file_path","type":"string"},
     {"name":"file_format","type":"string"},
     {"name":"record_count","type":"long"},
     {"name":"file_size_in_bytes","type":"long"}]}}]}"#;

#[derive(Clone, Debug)]
struct Entry {
    status: i32,
    /// absolute path of the data file
    path: PathBuf,
    content: i32,
    format: String,
    /// the URI spelling written into the manifest
    uri: String,
}

#[derive(Clone, Debug)]
struct Snap {
    id: i64,
    ts: i64,
    manifest_list: String,
    /// the model: live data files of this snapshot
    live: BTreeSet<PathBuf>,
    /// what opening this snapshot must do
    refuse: Option<&'static str>,
    /// the live entries (for a writer that continues from this snapshot after a rollback)
    entries: Vec<Entry>,
}

struct Writer2 {
    dir: PathBuf,
    v1: bool,
    hint_style: bool,
    version: u32,
    clock: i64,
    next_file: u64,
    next_id: i64,
    snaps: Vec<Snap>,
    current: Option<i64>,
    /// manifests of the current snapshot: path -> entries
    manifests: Vec<(PathBuf, Vec<Entry>)>,
    /// rows (ids) the harness wrote into each data file
    rows: BTreeMap<PathBuf, Vec<i64>>,
    hint_as_v: bool,
    /// a half-written metadata file left by a crash (removed after the step's reads, as an
    /// orphan cleanup would)
    torn: Option<PathBuf>,
    /// naming of metadata files when there is no hint file (see `commit_metadata`)
    name_style: u8,
}

fn uri_of(rng: &mut Rng, abs: &Path, table_dir: &Path) -> String {
    let a = abs.to_string_lossy().to_string();
    match rng.below(4) {
        0 => format!("file://{a}"),
        1 => format!("file:{a}"),
        2 => a,
        _ => abs.strip_prefix(table_dir).map(|p| p.to_string_lossy().to_string()).unwrap_or(a),
    }
}

impl Writer2 {
    fn write_data_file(&mut self, rng: &mut Rng, n_rows: usize) -> PathBuf {
        let ids: Vec<i64> = (0..n_rows as i64).map(|i| self.next_id + i).collect();
        self.next_id += n_rows as i64;
        let t = Table {
            name: "t".into(),
            cols: vec![
                ColSpec { name: "id".into(), ty: Ty::I64, nulls16: 0, unique: true },
                ColSpec { name: "k".into(), ty: Ty::I64, nulls16: 4, unique: false },
                ColSpec { name: "s".into(), ty: Ty::Str, nulls16: 4, unique: false },
            ],
            data: vec![
                ColData::I64(ids.iter().map(|i| Some(*i)).collect()),
                ColData::I64(ids.iter().map(|i| if i % 5 == 0 { None } else { Some(i % 7) }).collect()),
                ColData::Str(ids.iter().map(|i| if i % 6 == 0 { None } else { Some(format!("s{}", i % 3)) }).collect()),
            ],
            rows: n_rows,
        };
        // Iceberg writers reuse file names across partition directories
        let sub = format!("p={}", rng.below(3));
        let name = if rng.chance(1, 3) { "part-0.parquet".to_string() } else { format!("f{}.parquet", self.next_file) };
        self.next_file += 1;
        let mut path = self.dir.join("data").join(&sub).join(&name);
        if path.exists() {
            path = self.dir.join("data").join(format!("{sub}-{}", self.next_file)).join(&name);
        }
        std::fs::create_dir_all(path.parent().unwrap()).unwrap();
        let lay = ParquetLayout { file_cuts: vec![], row_group_rows: 1 + rng.usize(64), dictionary: rng.coin(), stats: 2, stem: "x".into(), same_name_dirs: false, empty_row_groups: vec![] };
        datagen::write_parquet_file(&t, 0, n_rows, &path, &lay).unwrap();
        self.rows.insert(path.clone(), ids);
        path
    }

    fn write_manifest(&self, path: &Path, entries: &[Entry], snapshot_id: i64) {
        let schema = Schema::parse_str(if self.v1 { MANIFEST_SCHEMA_V1 } else { MANIFEST_SCHEMA_V2 }).unwrap();
        let mut w = Writer::new(&schema, Vec::new()).unwrap();
        for e in entries {
            let mut df = vec![];
            if !self.v1 {
                df.push(("content".to_string(), Av::Int(e.content)));
            }
            df.push(("file_path".to_string(), Av::String(e.uri.clone())));
            df.push(("file_format".to_string(), Av::String(e.format.clone())));
            df.push(("record_count".to_string(), Av::Long(self.rows.get(&e.path).map(|r| r.len() as i64).unwrap_or(0))));
            df.push(("file_size_in_bytes".to_string(), Av::Long(std::fs::metadata(&e.path).map(|m| m.len() as i64).unwrap_or(0))));
            let rec = Av::Record(vec![
                ("status".to_string(), Av::Int(e.status)),
                ("snapshot_id".to_string(), Av::Union(1, Box::new(Av::Long(snapshot_id)))),
                ("data_file".to_string(), Av::Record(df)),
            ]);
            w.append(rec).unwrap();
        }
        std::fs::create_dir_all(path.parent().unwrap()).unwrap();
        std::fs::write(path, w.into_inner().unwrap()).unwrap();
    }

    fn write_manifest_list(&self, rng: &mut Rng, path: &Path, manifests: &[PathBuf], snapshot_id: i64) {
        let schema = Schema::parse_str(MANIFEST_LIST_SCHEMA).unwrap();
        let mut w = Writer::new(&schema, Vec::new()).unwrap();
        for m in manifests {
            let rec = Av::Record(vec![
                ("manifest_path".to_string(), Av::String(uri_of(rng, m, &self.dir))),
                ("manifest_length".to_string(), Av::Long(std::fs::metadata(m).map(|x| x.len() as i64).unwrap_or(0))),
                ("partition_spec_id".to_string(), Av::Int(0)),
                ("added_snapshot_id".to_string(), Av::Union(1, Box::new(Av::Long(snapshot_id)))),
            ]);
            w.append(rec).unwrap();
        }
        std::fs::write(path, w.into_inner().unwrap()).unwrap();
    }

    fn metadata_json(&self) -> String {
        json!({
            "format-version": if self.v1 { 1 } else { 2 },
            "table-uuid": "00000000-0000-0000-0000-000000000001",
            "location": self.dir.to_string_lossy(),
            "last-updated-ms": self.clock,
            "current-snapshot-id": self.current,
            "snapshots": self.snaps.iter().map(|s| json!({"snapshot-id": s.id, "timestamp-ms": s.ts, "manifest-list": s.manifest_list, "summary": {"operation": "append"}})).collect::<Vec<_>>(),
        })
        .to_string()
    }

    /// Write the next metadata file (and the hint). `stop_after`: crash point — 0 = crash
    /// before the metadata file, 1 = metadata written torn (half), 2 = metadata complete
    /// but hint not updated, 3 = complete commit.
    fn commit_metadata(&mut self, rng: &mut Rng, stop_after: u8) {
        self.version += 1;
        let mdir = self.dir.join("metadata");
        std::fs::create_dir_all(&mdir).unwrap();
        // without a hint file the reader orders metadata files by last-updated-ms (file name
        // only breaks ties), so the names need not follow the commit order: zero-padded
        // (pyiceberg), a bare random id, or v<N> whose string order breaks at v10
        let name = if self.hint_style {
            format!("v{}.metadata.json", self.version)
        } else {
            match self.name_style {
                0 => format!("{:05}-{:08x}.metadata.json", self.version, rng.below(u32::MAX as u64)),
                1 => format!("{:08x}-{:04x}.metadata.json", rng.below(u32::MAX as u64), self.version),
                _ => format!("v{}.metadata.json", 7 + self.version),
            }
        };
        let text = self.metadata_json();
        if stop_after == 0 {
            return;
        }
        if stop_after == 1 {
            std::fs::write(mdir.join(&name), &text.as_bytes()[..text.len() / 2]).unwrap();
            self.torn = Some(mdir.join(&name));
            return;
        }
        std::fs::write(mdir.join(&name), text).unwrap();
        if stop_after == 2 {
            return;
        }
        if self.hint_style {
            let hint = if self.hint_as_v { format!("v{}", self.version) } else { format!("{}\n", self.version) };
            std::fs::write(mdir.join("version-hint.text"), hint).unwrap();
        }
    }

    fn live_now(&self) -> BTreeSet<PathBuf> {
        self.manifests.iter().flat_map(|(_, es)| es.iter().filter(|e| e.status != 2).map(|e| e.path.clone())).collect()
    }
}

fn expected_ids(w: &Writer2, live: &BTreeSet<PathBuf>) -> Vec<i64> {
    let mut v: Vec<i64> = live.iter().flat_map(|p| w.rows.get(p).cloned().unwrap_or_default()).collect();
    v.sort();
    v
}

async fn read_ids(dir: &Path, snapshot: Option<i64>) -> Result<Vec<i64>, String> {
    let mut ctx = ExecutionContext::new();
    ctx.register_iceberg("t", dir, snapshot).map_err(|e| e.to_string())?;
    match outcome_of(ctx.sql("SELECT id, k, s FROM t").await) {
        Outcome::Rows(r) => {
            let mut ids: Vec<i64> = r.iter().map(|row| if let Cell::Int(i) = &row[0] { *i as i64 } else { -1 }).collect();
            ids.sort();
            // the other columns must be the ones the harness wrote for that id
            for row in &r {
                if let Cell::Int(i) = &row[0] {
                    let i = *i as i64;
                    let want_k = if i % 5 == 0 { None } else { Some(i % 7) };
                    let got_k = if let Cell::Int(k) = &row[1] { Some(*k as i64) } else { None };
                    if want_k != got_k {
                        return Err(format!("WRONG-CELL id {i}: k is {:?}, written {:?}", got_k, want_k));
                    }
                }
            }
            Ok(ids)
        }
        Outcome::Err { msg, .. } => Err(msg),
    }
}

pub fn run_c17(_p: &str, tier: Tier, run_seed: u64, _ov: &Value) -> RunOut {
    let mut rng = Rng::new(run_seed);
    let mut out = RunOut::default();
    let mut log: Vec<String> = Vec::new();
    let root = fresh_dir("iceberg");
    let dir = root.join("tbl");
    std::fs::create_dir_all(&dir).unwrap();
    let mut w = Writer2 {
        dir: dir.clone(),
        v1: rng.chance(1, 3),
        hint_style: rng.chance(2, 3),
        version: 0,
        clock: 1_700_000_000_000,
        next_file: 0,
        next_id: 0,
        snaps: Vec::new(),
        current: None,
        manifests: Vec::new(),
        rows: BTreeMap::new(),
        hint_as_v: rng.coin(),
        torn: None,
        name_style: rng.fork(0x9a3e).below(3) as u8,
    };
    log.push(format!("v1={} hint={} hint_as_v={}", w.v1, w.hint_style, w.hint_as_v));
    let pool = rayon::ThreadPoolBuilder::new().num_threads(1).build().unwrap();
    let rt = tokio::runtime::Builder::new_current_thread().enable_all().build().unwrap();
    let n_ops = if tier == Tier::Thorough { 12 } else { 8 };
    let mut trace: Vec<String> = Vec::new();
    pool.install(|| {
        rt.block_on(async {
            for step in 0..n_ops {
                // ---- one commit
                let kind = if w.current.is_none() { 0 } else { rng.below(12) };
                let snapshot_id = 1000 + step as i64 * 7 + rng.below(5) as i64;
                // equal timestamps happen (ties in last-updated-ms)
                let tick = if rng.chance(1, 4) { 0 } else { 1 + rng.below(1000) as i64 };
                // a tie in last-updated-ms is broken by file name: only the hint file and the
                // zero-padded names order like the commits, so the other styles get distinct times
                w.clock += if tick == 0 && !w.hint_style && w.name_style != 0 { 1 } else { tick };
                let mut refuse: Option<&'static str> = None;
                let mut opname = "append";
                let before_live = w.live_now();
                let before_current = w.current;
                let mut new_manifests: Vec<(PathBuf, Vec<Entry>)> = w.manifests.clone();
                // a later commit no longer carries DELETED entries of earlier ones
                for (_, es) in new_manifests.iter_mut() {
                    es.retain(|e| e.status != 2);
                    for e in es.iter_mut() {
                        e.status = 0;
                    }
                }
                new_manifests.retain(|(_, es)| !es.is_empty());
                // manifest names must be unique within a commit: two manifests rewritten by one
                // delete once drew the same random number, the second was then never written
                // and the list named one file twice (a harness fault, not an engine one)
                let mseq = std::cell::Cell::new(0u32);
                let mpath = |w: &Writer2, n: u64| {
                    mseq.set(mseq.get() + 1);
                    w.dir.join("metadata").join(format!("m{n}-{snapshot_id}-{}.avro", mseq.get()))
                };
                match kind {
                    0..=3 => {
                        let n_files = 1 + rng.usize(3);
                        let mut es = Vec::new();
                        for _ in 0..n_files {
                            let nr = 1 + rng.usize(120);
                            let p = w.write_data_file(&mut rng, nr);
                            let uri = uri_of(&mut rng, &p, &w.dir);
                            es.push(Entry { status: 1, path: p, content: 0, format: if rng.coin() { "PARQUET".into() } else { "parquet".into() }, uri });
                        }
                        new_manifests.push((mpath(&w, w.next_file), es));
                    }
                    4 | 5 => {
                        opname = "delete";
                        // mark a subset of live files DELETED in the manifests that hold them
                        let live: Vec<PathBuf> = before_live.iter().cloned().collect();
                        let n_del = 1 + rng.usize(live.len().max(1));
                        let mut dels: BTreeSet<PathBuf> = BTreeSet::new();
                        for _ in 0..n_del {
                            if !live.is_empty() {
                                dels.insert(rng.pick(&live).clone());
                            }
                        }
                        for (mp, es) in new_manifests.iter_mut() {
                            if es.iter().any(|e| dels.contains(&e.path)) {
                                *mp = mpath(&w, w.next_file + 100 + rng.below(1000));
                                for e in es.iter_mut() {
                                    if dels.contains(&e.path) {
                                        e.status = 2;
                                    }
                                }
                            }
                        }
                        if new_manifests.iter().all(|(_, es)| es.iter().all(|e| e.status == 2)) {
                            refuse = Some("empty-snapshot");
                        }
                    }
                    6 => {
                        opname = "rewrite_manifests";
                        let all: Vec<Entry> = new_manifests.iter().flat_map(|(_, es)| es.iter().cloned()).map(|mut e| { e.status = 0; e }).collect();
                        new_manifests = vec![(mpath(&w, w.next_file + 7000), all)];
                    }
                    7 => {
                        opname = "overwrite";
                        for (mp, es) in new_manifests.iter_mut() {
                            *mp = mpath(&w, w.next_file + 200 + rng.below(1000));
                            for e in es.iter_mut() {
                                e.status = 2;
                            }
                        }
                        let nr = 1 + rng.usize(60);
                        let p = w.write_data_file(&mut rng, nr);
                        let uri = uri_of(&mut rng, &p, &w.dir);
                        new_manifests.push((mpath(&w, w.next_file + 300), vec![Entry { status: 1, path: p, content: 0, format: "PARQUET".into(), uri }]));
                    }
                    8 => {
                        opname = "rollback";
                    }
                    9 => {
                        opname = "append_delete_file";
                        if w.v1 {
                            opname = "append";
                        } else {
                            refuse = Some("delete-files");
                        }
                        let p = w.write_data_file(&mut rng, 5);
                        let uri = uri_of(&mut rng, &p, &w.dir);
                        new_manifests.push((mpath(&w, w.next_file + 400), vec![Entry { status: 1, path: p, content: if w.v1 { 0 } else { 1 + rng.below(2) as i32 }, format: "PARQUET".into(), uri }]));
                    }
                    10 => {
                        opname = "append_non_parquet";
                        refuse = Some("non-parquet");
                        let p = w.write_data_file(&mut rng, 5);
                        let uri = uri_of(&mut rng, &p, &w.dir);
                        new_manifests.push((mpath(&w, w.next_file + 500), vec![Entry { status: 1, path: p, content: 0, format: rng.pick(&["ORC", "AVRO"]).to_string(), uri }]));
                    }
                    _ => {
                        opname = "append_remote_uri";
                        refuse = Some("remote-uri");
                        let p = w.write_data_file(&mut rng, 5);
                        new_manifests.push((mpath(&w, w.next_file + 600), vec![Entry { status: 1, path: p, content: 0, format: "PARQUET".into(), uri: format!("{}bucket/data/x.parquet", rng.pick(&["s3://", "s3a://", "gs://", "hdfs://"])) }]));
                    }
                }
                // crash point of this commit: 0..=3 (see commit_metadata); most commits complete
                let crash = if rng.chance(1, 4) { rng.below(3) as u8 } else { 3 };
                if opname == "rollback" {
                    // current moves back to an older listed snapshot; no new files
                    let older: Vec<i64> = w.snaps.iter().map(|s| s.id).filter(|id| Some(*id) != w.current).collect();
                    if older.is_empty() {
                        continue;
                    }
                    let target = *rng.pick(&older);
                    let old_current = w.current;
                    w.current = Some(target);
                    w.commit_metadata(&mut rng, crash);
                    let hint_exists = w.dir.join("metadata").join("version-hint.text").is_file();
                    if crash < 3 && !(crash == 2 && (!w.hint_style || !hint_exists)) {
                        w.current = old_current; // the commit did not become visible
                        if crash == 2 && w.hint_style {
                            // metadata vN exists but the hint still names vN-1
                        }
                    } else {
                        let snap = w.snaps.iter().find(|s| s.id == target).unwrap().clone();
                        // manifests of the writer follow the snapshot it rolled back to
                        w.manifests = Vec::new();
                        let _ = snap;
                    }
                } else {
                    // write manifests, then the list, then the metadata (+ hint)
                    for (mp, es) in &new_manifests {
                        if !mp.exists() {
                            w.write_manifest(mp, es, snapshot_id);
                        }
                    }
                    let list_path = w.dir.join("metadata").join(format!("snap-{snapshot_id}-{}.avro", step));
                    w.write_manifest_list(&mut rng, &list_path, &new_manifests.iter().map(|(p, _)| p.clone()).collect::<Vec<_>>(), snapshot_id);
                    let live: BTreeSet<PathBuf> = new_manifests.iter().flat_map(|(_, es)| es.iter().filter(|e| e.status != 2).map(|e| e.path.clone())).collect();
                    // what the snapshot must do follows from ALL of its live entries (entries
                    // are carried from commit to commit)
                    let live_entries: Vec<&Entry> = new_manifests.iter().flat_map(|(_, es)| es.iter().filter(|e| e.status != 2)).collect();
                    let refuse: Option<&'static str> = if live_entries.is_empty() {
                        Some("empty-snapshot")
                    } else if live_entries.iter().any(|e| e.content != 0) {
                        Some("delete-files")
                    } else if live_entries.iter().any(|e| !e.format.eq_ignore_ascii_case("parquet")) {
                        Some("non-parquet")
                    } else if live_entries.iter().any(|e| e.uri.contains("://") && !e.uri.starts_with("file:")) {
                        Some("remote-uri")
                    } else {
                        None
                    };
                    let saved = (w.snaps.clone(), w.current, w.manifests.clone());
                    let entries: Vec<Entry> = live_entries.iter().map(|e| (*e).clone()).collect();
                    w.snaps.push(Snap { id: snapshot_id, ts: w.clock, manifest_list: uri_of(&mut rng, &list_path, &w.dir), live, refuse, entries });
                    w.current = Some(snapshot_id);
                    w.manifests = new_manifests;
                    w.commit_metadata(&mut rng, crash);
                    // without a hint FILE the reader falls back to the newest metadata file
                    let hint_exists = w.dir.join("metadata").join("version-hint.text").is_file();
                    let visible = crash == 3 || (crash == 2 && (!w.hint_style || !hint_exists));
                    if !visible {
                        // the reader must still see the previous state (or an error for a torn file)
                        w.snaps = saved.0;
                        w.current = saved.1;
                        w.manifests = saved.2;
                    }
                }
                if opname == "rollback" && w.manifests.is_empty() {
                    // rebuild the writer's working manifests from the snapshot's model so later
                    // commits start from it: a compacted manifest with EXISTING entries
                    if let Some(cur) = w.current {
                        if let Some(s) = w.snaps.iter().find(|s| s.id == cur) {
                            let es: Vec<Entry> = s.entries.iter().cloned().map(|mut e| { e.status = 0; e }).collect();
                            w.manifests = vec![(w.dir.join("metadata").join(format!("rb-{cur}-{step}.avro")), es)];
                        }
                    }
                }
                trace.push(format!("{opname}/crash{crash}"));
                out.bump(&format!("n.op.{opname}"));
                if crash < 3 {
                    out.bump(&format!("fault.crash_point_{crash}.armed"));
                    out.bump(&format!("fault.crash_point_{crash}.fired"));
                }
                // ---- read back: current
                let torn_possible = crash == 1 && (!w.hint_style || !w.dir.join("metadata").join("version-hint.text").is_file());
                let cur = w.current.and_then(|c| w.snaps.iter().find(|s| s.id == c).cloned());
                let got = read_ids(&dir, None).await;
                let feats = vec![format!("op:{opname}"), format!("crash:{crash}"), format!("hint:{}", w.hint_style), format!("v1:{}", w.v1)];
                let ctxj = json!({"step": step, "trace": trace, "current": w.current, "snapshots": w.snaps.iter().map(|s| (s.id, s.live.len(), s.refuse)).collect::<Vec<_>>(), "got": match &got { Ok(v) => json!({"rows": v.len()}), Err(e) => json!({"err": e}) }});
                match (&cur, &got) {
                    (None, Ok(v)) => out.violations.push(viol("reads-live-files-of-snapshot", "rows-from-a-table-with-no-snapshot", feats.clone(), format!("no snapshot is current but the table opened with {} rows", v.len()), ctxj.clone())),
                    (None, Err(_)) => {}
                    (Some(s), Ok(v)) => {
                        let want = expected_ids(&w, &s.live);
                        if let Some(why) = s.refuse {
                            out.violations.push(viol("refused-shapes-are-refused", "refused-shape-answered", { let mut f = feats.clone(); f.push(format!("refuse:{why}")); f }, format!("snapshot {} must be refused ({why}) but opened with {} rows", s.id, v.len()), ctxj.clone()));
                        } else if *v != want {
                            // after an invisible commit the previous state is the only legal answer
                            let _ = (before_live.clone(), before_current);
                            out.violations.push(viol("reads-live-files-of-snapshot", if v.len() != want.len() { "row-count-differs" } else { "rows-differ" }, feats.clone(),
                                format!("after {opname} (crash point {crash}): current snapshot {} has {} live rows in {} files, the table returned {} rows", s.id, want.len(), s.live.len(), v.len()), ctxj.clone()));
                        } else {
                            out.bump("probe.current_read_matches");
                        }
                    }
                    (Some(s), Err(e)) => {
                        if e.starts_with("WRONG-CELL") {
                            out.violations.push(viol("reads-live-files-of-snapshot", "wrong-cell", feats.clone(), e.clone(), ctxj.clone()));
                        } else if s.refuse.is_some() {
                            out.bump(&format!("probe.refused_{}", s.refuse.unwrap()));
                        } else if torn_possible {
                            out.bump("probe.torn_metadata_error");
                        } else {
                            out.violations.push(viol("reads-live-files-of-snapshot", "error-instead-of-rows", feats.clone(), format!("after {opname} (crash point {crash}): snapshot {} is readable but opening failed: {e}", s.id), ctxj.clone()));
                        }
                    }
                }
                // ---- time travel to every listed snapshot, and to one that is not listed
                if !torn_possible {
                    for s in w.snaps.clone() {
                        let got = read_ids(&dir, Some(s.id)).await;
                        match (&s.refuse, got) {
                            (Some(why), Ok(v)) => out.violations.push(viol("refused-shapes-are-refused", "refused-shape-answered", vec![format!("refuse:{why}"), "time-travel".into()], format!("snapshot {} must be refused ({why}) but opened with {} rows", s.id, v.len()), ctxj.clone())),
                            (Some(_), Err(_)) => {}
                            (None, Ok(v)) => {
                                let want = expected_ids(&w, &s.live);
                                if v != want {
                                    out.violations.push(viol("reads-live-files-of-snapshot", "time-travel-rows-differ", feats.clone(), format!("snapshot {}: {} live rows, time travel returned {}", s.id, want.len(), v.len()), ctxj.clone()));
                                } else {
                                    out.bump("probe.time_travel_matches");
                                }
                            }
                            (None, Err(e)) => out.violations.push(viol("reads-live-files-of-snapshot", "time-travel-error", feats.clone(), format!("snapshot {} is listed and readable but time travel failed: {e}", s.id), ctxj.clone())),
                        }
                    }
                    if w.current.is_some() {
                        if let Ok(v) = read_ids(&dir, Some(424242)).await {
                            out.violations.push(viol("refused-shapes-are-refused", "unknown-snapshot-answered", feats.clone(), format!("unknown snapshot id answered {} rows", v.len()), ctxj.clone()));
                        } else {
                            out.bump("probe.unknown_snapshot_refused");
                        }
                    }
                }
                if let Some(t) = w.torn.take() {
                    let _ = std::fs::remove_file(t);
                }
                log.push(format!("{step} {opname} crash={crash} current={:?} snaps={}", w.current, w.snaps.len()));
            }
        })
    });
    out.case_hashes.push(fnv(trace.join(",").as_bytes()) ^ (w.v1 as u64) << 60 ^ (w.hint_style as u64) << 61);
    out.sample = Some(json!({"style": if w.hint_style { "version-hint" } else { "uuid-metadata" }, "v1": w.v1, "trace": trace}));
    out.log_hash = fnv(log.join("\n").as_bytes());
    let _ = std::fs::remove_dir_all(&root);
    let mut seen = BTreeSet::new();
    out.violations.retain(|v| seen.insert((v.clause.clone(), v.symptom.clone(), v.features.clone())));
    let _ = canon::digest(&[]);
    out
}
