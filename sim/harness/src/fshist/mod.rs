//! fs-history-sim: histories of writes / rewrites / commits / crashes on a scratch
//! directory, interleaved with engine reads; the model is what the harness itself wrote.

pub mod iceberg;
pub mod rewrite;
pub mod sidecar;
