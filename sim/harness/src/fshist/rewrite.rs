//! C19 — rewritten files are never served from a stale cache.
//!
//! Histories of write / query / rewrite / query on one path, with the rewrite mode
//! (in place, temp + rename), the replacement's byte length (different, identical) and
//! its modification time (advanced by seconds, advanced within the same second,
//! preserved exactly) all controlled by the harness.  The truth after every step is an
//! in-memory registration of the rows just written.

use crate::cluster::runs::compare;
use crate::cluster::world::fresh_dir;
use crate::cluster::{outcome_of, Outcome};
use crate::kit::datagen::{self, ColData, ColSpec, ParquetLayout, Table, Ty};
use crate::kit::report::{RunOut, Tier, Violation};
use crate::kit::rng::{fnv, Rng};
use crate::kit::sqlgen::Stmt;
use query_engine::ExecutionContext;
use serde_json::{json, Value};
use std::path::Path;
use std::time::{Duration, SystemTime};

fn viol(clause: &str, symptom: &str, features: Vec<String>, detail: String, context: Value) -> Violation {
    Violation { clause: clause.into(), symptom: symptom.into(), features, detail, overrides: json!({}), context }
}

/// Fixed-width columns only, so that two versions with the same row count can have
/// exactly the same encoded length; one low-cardinality string column is added when the
/// sidecar's dictionary path should be involved (then lengths may differ).
fn version(rng: &mut Rng, rows: usize, with_string: bool, salt: i64) -> Table {
    let mut cols = vec![
        ColSpec { name: "id".into(), ty: Ty::I64, nulls16: 0, unique: true },
        ColSpec { name: "g".into(), ty: Ty::I64, nulls16: 0, unique: false },
        ColSpec { name: "x".into(), ty: Ty::F64, nulls16: 0, unique: false },
    ];
    let mut data = vec![
        ColData::I64((0..rows as i64).map(|i| Some(i * 7 + salt)).collect()),
        ColData::I64((0..rows as i64).map(|i| Some((i + salt) % 5)).collect()),
        ColData::F64((0..rows).map(|_| Some(rng.range(-1000, 1000) as f64 / 4.0)).collect()),
    ];
    if with_string {
        cols.push(ColSpec { name: "s".into(), ty: Ty::Str, nulls16: 0, unique: false });
        data.push(ColData::Str((0..rows as i64).map(|i| Some(format!("w{}", (i + salt) % 4))).collect()));
    }
    Table { name: "t".into(), cols, data, rows }
}

fn set_mtime(p: &Path, t: SystemTime) {
    let f = std::fs::OpenOptions::new().write(true).open(p).expect("open for utimens");
    f.set_modified(t).expect("set mtime");
}

const QUERIES: &[&str] = &[
    "SELECT g, COUNT(*) AS n, SUM(id) AS s FROM t GROUP BY g",
    "SELECT id, g, x FROM t WHERE id >= 0",
    "SELECT id FROM t",
    "SELECT COUNT(*) AS n, MIN(id) AS lo, MAX(id) AS hi FROM t",
    "SELECT g, id FROM t WHERE g = 1",
];

pub fn run_c19(_p: &str, tier: Tier, run_seed: u64, _ov: &Value) -> RunOut {
    let mut rng = Rng::new(run_seed);
    let mut out = RunOut::default();
    let mut log: Vec<String> = Vec::new();
    let root = fresh_dir("rewrite");
    let path = root.join("t.parquet");
    let with_string = rng.chance(1, 3);
    let ipc_mode = *rng.pick(&[0i64, 1, 2, 2]);
    let rows0 = 20 + rng.usize(300);
    let lay = ParquetLayout { file_cuts: vec![], row_group_rows: *rng.pick(&[16usize, 64, 4096]), dictionary: with_string, stats: 2, stem: "t".into(), same_name_dirs: false, empty_row_groups: vec![] };
    let mut trace: Vec<String> = vec![format!("ipc_mode={ipc_mode} strings={with_string} rg={}", lay.row_group_rows)];
    query_engine::verif::knobs::clear();
    query_engine::verif::knobs::set("ipc.mode", ipc_mode);
    query_engine::verif::knobs::set("subquery.single_thread_runtime", 1);
    let pool = rayon::ThreadPoolBuilder::new().num_threads(1).build().unwrap();
    let rt = tokio::runtime::Builder::new_current_thread().enable_all().build().unwrap();
    let steps = if tier == Tier::Thorough { 6 } else { 4 };
    pool.install(|| {
        rt.block_on(async {
            // version 0
            let mut cur = version(&mut rng, rows0, with_string, 0);
            datagen::write_parquet_file(&cur, 0, cur.rows, &path, &lay).unwrap();
            let base_time = SystemTime::UNIX_EPOCH + Duration::from_secs(1_700_000_000) + Duration::from_nanos(123_456_789);
            set_mtime(&path, base_time);
            let mut mtime = base_time;
            // a serving context registered before any rewrite
            let mut serving = ExecutionContext::new();
            serving.register_parquet("t", &path).expect("register");
            // warm every cache
            for q in QUERIES {
                let _ = serving.sql(q).await;
            }
            for step in 0..steps {
                // ---- rewrite
                let same_rows = rng.chance(2, 3);
                let rows = if same_rows { cur.rows } else { 10 + rng.usize(400) };
                let next = version(&mut rng, rows, with_string, 1000 * (step as i64 + 1));
                let old_len = std::fs::metadata(&path).unwrap().len();
                let in_place = rng.coin();
                if in_place {
                    datagen::write_parquet_file(&next, 0, next.rows, &path, &lay).unwrap();
                } else {
                    let tmp = root.join(format!("t.parquet.tmp{step}"));
                    datagen::write_parquet_file(&next, 0, next.rows, &tmp, &lay).unwrap();
                    std::fs::rename(&tmp, &path).unwrap();
                }
                let new_len = std::fs::metadata(&path).unwrap().len();
                let tpol = *rng.pick(&["advance-seconds", "advance-subsecond", "preserved", "advance-seconds", "same-second-whole"]);
                mtime = match tpol {
                    // a whole-second timestamp inside the SAME second (what `touch -d`, tar or an
                    // rsync from a one-second filesystem leave behind): the start of the second,
                    // or, when the time already is one, a sub-second instant of it
                    "same-second-whole" => {
                        let d = mtime.duration_since(SystemTime::UNIX_EPOCH).unwrap();
                        if d.subsec_nanos() == 0 {
                            mtime + Duration::from_nanos(1 + rng.below(999_999_998))
                        } else {
                            SystemTime::UNIX_EPOCH + Duration::from_secs(d.as_secs())
                        }
                    }
                    "advance-seconds" => mtime + Duration::from_secs(2 + rng.below(100)),
                    "advance-subsecond" => {
                        // stay inside the same whole second
                        let ns = mtime.duration_since(SystemTime::UNIX_EPOCH).unwrap().subsec_nanos();
                        let room = 999_999_999u32.saturating_sub(ns).max(1);
                        mtime + Duration::from_nanos(1 + rng.below(room as u64 - 0))
                    }
                    _ => mtime,
                };
                set_mtime(&path, mtime);
                let same_len = new_len == old_len;
                let feats = vec![
                    format!("mode:{}", if in_place { "in-place" } else { "rename" }),
                    format!("mtime:{tpol}"),
                    format!("length:{}", if same_len { "same" } else { "different" }),
                    format!("ipc:{}", ["off", "auto", "build"][ipc_mode as usize]),
                ];
                trace.push(format!("rewrite[{},{},{}]", if in_place { "in-place" } else { "rename" }, tpol, if same_len { "same-len" } else { "diff-len" }));
                out.bump(&format!("fault.rewrite_{tpol}.armed"));
                out.bump(&format!("fault.rewrite_{tpol}.fired"));
                if same_len {
                    out.bump("probe.same_length_rewrite");
                }
                if tpol == "preserved" && same_len {
                    out.bump("probe.same_length_and_mtime");
                }
                cur = next;
                // ---- truth
                let mut truth = ExecutionContext::new();
                truth.register_table("t", cur.schema(), cur.one_batch());
                // ---- every later query reads the new content: the serving context and a fresh one
                let mut fresh = ExecutionContext::new();
                let fresh_ok = fresh.register_parquet("t", &path);
                for (qi, q) in QUERIES.iter().enumerate() {
                    let st = Stmt { sql: q.to_string(), family: "rewrite", order_keys: vec![], tables: vec![], features: vec![] };
                    let want = outcome_of(truth.sql(q).await);
                    for (who, ctx) in [("serving", &serving), ("fresh", &fresh)] {
                        if who == "fresh" && fresh_ok.is_err() {
                            continue;
                        }
                        use futures::FutureExt;
                        let got = match std::panic::AssertUnwindSafe(ctx.sql(q)).catch_unwind().await {
                            Ok(r) => outcome_of(r),
                            Err(_) => Outcome::Err { class: "panic", msg: "query panicked".into() },
                        };
                        out.case_hashes.push(fnv(format!("{}|{who}|{qi}|{}", feats.join(","), got.tag().split(':').next().unwrap_or("")).as_bytes()));
                        let bad = match (&want, &got) {
                            (Outcome::Rows(_), Outcome::Rows(_)) => compare(&st, &want, &got).err().map(|(s, d)| (s, d)),
                            (Outcome::Rows(_), Outcome::Err { class, msg }) => Some((format!("error-instead-of-new-content:{class}"), msg.clone())),
                            _ => None,
                        };
                        if let Some((sym, d)) = bad {
                            let mut f = feats.clone();
                            f.push(format!("context:{who}"));
                            f.push(format!("query:{qi}"));
                            out.violations.push(viol("later-queries-read-new-content", if sym.starts_with("error") { "error-instead-of-new-content" } else { "stale-content" }, f,
                                format!("after rewrite #{step} ({}), {who} context, `{q}`: {d}", trace.last().unwrap()),
                                json!({"trace": trace, "old_len": old_len, "new_len": new_len, "query": q, "expected": want.brief(), "observed": got.brief()})));
                        }
                    }
                }
                if let Err(e) = fresh_ok {
                    out.violations.push(viol("later-queries-read-new-content", "register-failed-after-rewrite", feats.clone(), format!("registering the rewritten file failed: {e}"), json!({"trace": trace})));
                }
                log.push(format!("{step} {} len {}->{}", trace.last().unwrap(), old_len, new_len));
            }
        })
    });
    query_engine::verif::knobs::clear();
    out.sample = Some(json!({"trace": trace}));
    out.log_hash = fnv(log.join("\n").as_bytes()) ^ fnv(format!("{}", out.violations.len()).as_bytes());
    let _ = std::fs::remove_dir_all(&root);
    let mut seen = std::collections::BTreeSet::new();
    out.violations.retain(|v| {
        let key: Vec<String> = v.features.iter().filter(|f| !f.starts_with("query:")).cloned().collect();
        seen.insert((v.symptom.clone(), key))
    });
    out
}
