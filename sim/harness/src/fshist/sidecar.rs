//! C20 — IPC sidecars are invisible and safe to build concurrently.
//!
//! Builders and readers are real threads that stop at every park point of
//! `ipc_cache` and are released one at a time by a seeded controller.  Some actors behave
//! like threads of ANOTHER process (own pid for the staging directory, no shared
//! in-process lock) and may be killed at any park point, leaving what a crashed process
//! leaves.  Every reader's every query must equal the sidecar-off answer.

use crate::cluster::runs::compare;
use crate::cluster::world::fresh_dir;
use crate::cluster::{outcome_of, Outcome};
use crate::kit::datagen::{self, ColData, ColSpec, ParquetLayout, Table, Ty};
use crate::kit::report::{RunOut, Tier, Violation};
use crate::kit::rng::{fnv, Rng};
use crate::kit::sqlgen::Stmt;
use query_engine::verif::park::{self, Controller};
use query_engine::ExecutionContext;
use serde_json::{json, Value};
use std::collections::{BTreeMap, BTreeSet};
use std::path::{Path, PathBuf};
use std::sync::{Arc, Condvar, Mutex};
use std::time::Duration;

fn viol(clause: &str, symptom: &str, features: Vec<String>, detail: String, context: Value) -> Violation {
    Violation { clause: clause.into(), symptom: symptom.into(), features, detail, overrides: json!({}), context }
}

#[derive(Default)]
struct CtlState {
    parked: BTreeMap<u32, &'static str>,
    released: Option<u32>,
    done: BTreeSet<u32>,
    kill: BTreeSet<u32>,
    lock_holder: Option<u32>,
    /// holder of the cross-process publish lock (flock)
    publish_holder: Option<u32>,
    live: BTreeSet<u32>,
}

struct Ctl {
    m: Mutex<CtlState>,
    cv: Condvar,
}

struct Killed;

impl Controller for Ctl {
    fn at(&self, actor: u32, site: &'static str) {
        let mut s = self.m.lock().unwrap();
        if !s.live.contains(&actor) {
            return;
        }
        if site == "ipc.lock.after" {
            s.lock_holder = Some(actor);
        }
        if site == "ipc.lock.dropped" && s.lock_holder == Some(actor) {
            s.lock_holder = None;
        }
        if site == "ipc.build.publish_locked" {
            s.publish_holder = Some(actor);
        }
        if site == "ipc.build.publish_unlocked" && s.publish_holder == Some(actor) {
            s.publish_holder = None;
        }
        // a killed actor unwinds through the drop points: record the releases, never park
        if std::thread::panicking() {
            self.cv.notify_all();
            return;
        }
        s.parked.insert(actor, site);
        self.cv.notify_all();
        loop {
            if s.kill.contains(&actor) {
                s.parked.remove(&actor);
                drop(s);
                std::panic::resume_unwind(Box::new(Killed));
            }
            if s.released == Some(actor) {
                s.released = None;
                s.parked.remove(&actor);
                self.cv.notify_all();
                return;
            }
            s = self.cv.wait(s).unwrap();
        }
    }
}

const QUERIES: &[&str] = &[
    "SELECT g, COUNT(*) AS n, SUM(id) AS s FROM t GROUP BY g",
    "SELECT id, g FROM t WHERE id >= 0",
    "SELECT id FROM t",
    "SELECT s, COUNT(*) AS n FROM t GROUP BY s",
    "SELECT COUNT(*) AS n FROM t WHERE s = 'w1'",
];

fn sidecar_dir(p: &Path) -> PathBuf {
    let mut name = p.file_name().unwrap().to_os_string();
    name.push(".qeipc");
    p.with_file_name(name)
}

/// Observer of the sidecar's directory through inotify. The park points stop actors
/// between the engine's own steps, but a directory removal is many unlinks inside one
/// step: a reader of another process can open the published directory between two of
/// them. The kernel's event queue keeps that order, so the observer can tell "files of
/// the published directory were unlinked while it still stood at its published path"
/// (a partial sidecar was observable) from "the directory was first moved away by one
/// rename and deleted elsewhere" (it never was).
struct DirWatch {
    fd: i32,
    parent_wd: i32,
    final_name: std::ffi::OsString,
    /// watch descriptor of a directory seen at the published path -> still there?
    at_published_path: BTreeMap<i32, bool>,
    /// inode of the directory currently watched at the published path
    watched_ino: Option<u64>,
}

impl DirWatch {
    fn new(parquet: &Path) -> Option<DirWatch> {
        use std::os::unix::ffi::OsStrExt;
        let parent = parquet.parent()?;
        // SAFETY: plain syscalls on a descriptor this struct owns
        let fd = unsafe { libc::inotify_init1(libc::IN_NONBLOCK | libc::IN_CLOEXEC) };
        if fd < 0 {
            return None;
        }
        let c = std::ffi::CString::new(parent.as_os_str().as_bytes()).ok()?;
        let parent_wd = unsafe { libc::inotify_add_watch(fd, c.as_ptr(), libc::IN_MOVED_FROM | libc::IN_MOVED_TO | libc::IN_DELETE | libc::IN_CREATE) };
        if parent_wd < 0 {
            unsafe { libc::close(fd) };
            return None;
        }
        Some(DirWatch { fd, parent_wd, final_name: sidecar_dir(parquet).file_name()?.to_os_string(), at_published_path: BTreeMap::new(), watched_ino: None })
    }

    /// Called while every actor is parked: start watching the directory that now stands
    /// at the published path (if it is a new one).
    fn watch_published(&mut self, parquet: &Path) {
        use std::os::unix::ffi::OsStrExt;
        use std::os::unix::fs::MetadataExt;
        let dir = sidecar_dir(parquet);
        let Ok(md) = std::fs::metadata(&dir) else { return };
        if !md.is_dir() || self.watched_ino == Some(md.ino()) {
            return;
        }
        let Ok(c) = std::ffi::CString::new(dir.as_os_str().as_bytes()) else { return };
        let wd = unsafe { libc::inotify_add_watch(self.fd, c.as_ptr(), libc::IN_DELETE | libc::IN_MOVED_FROM) };
        if wd >= 0 {
            self.at_published_path.insert(wd, true);
            self.watched_ino = Some(md.ino());
        }
    }

    /// Drain the queue. Returns the names of entries unlinked (or moved out) from a
    /// directory that was, at that moment, still at the published path.
    fn drain(&mut self) -> Vec<String> {
        let mut removed_in_place = Vec::new();
        let mut buf = vec![0u8; 64 * 1024];
        loop {
            let n = unsafe { libc::read(self.fd, buf.as_mut_ptr() as *mut libc::c_void, buf.len()) };
            if n <= 0 {
                break;
            }
            let mut off = 0usize;
            while off + std::mem::size_of::<libc::inotify_event>() <= n as usize {
                // SAFETY: the kernel wrote a whole inotify_event header at this offset
                let ev: libc::inotify_event = unsafe { std::ptr::read_unaligned(buf.as_ptr().add(off) as *const libc::inotify_event) };
                let name_start = off + std::mem::size_of::<libc::inotify_event>();
                let name_end = name_start + ev.len as usize;
                let name: Vec<u8> = buf[name_start..name_end.min(n as usize)].iter().cloned().take_while(|b| *b != 0).collect();
                let name = String::from_utf8_lossy(&name).to_string();
                if ev.wd == self.parent_wd {
                    if std::ffi::OsStr::new(&name) == self.final_name && ev.mask & (libc::IN_MOVED_FROM | libc::IN_DELETE) != 0 {
                        // whatever stood at the published path has left it
                        for v in self.at_published_path.values_mut() {
                            *v = false;
                        }
                        self.watched_ino = None;
                    }
                } else if self.at_published_path.get(&ev.wd) == Some(&true) && ev.mask & (libc::IN_DELETE | libc::IN_MOVED_FROM) != 0 {
                    removed_in_place.push(name);
                }
                off = name_end;
            }
        }
        removed_in_place
    }
}

impl Drop for DirWatch {
    fn drop(&mut self) {
        unsafe { libc::close(self.fd) };
    }
}

/// Whether some builder really holds the cross-process publish lock right now, asked of
/// the kernel (a non-blocking flock on the same file through our own descriptor) rather
/// than inferred from park points: an engine that announces the lock but does not hold it
/// must not be serialised by the controller.
fn publish_lock_held(parquet: &Path) -> bool {
    use std::os::unix::io::AsRawFd;
    let p = sidecar_dir(parquet).with_extension("publish.lock");
    let Ok(f) = std::fs::OpenOptions::new().create(true).truncate(false).write(true).open(&p) else {
        return false;
    };
    // SAFETY: flock on a descriptor this function owns
    let r = unsafe { libc::flock(f.as_raw_fd(), libc::LOCK_EX | libc::LOCK_NB) };
    if r == 0 {
        unsafe {
            libc::flock(f.as_raw_fd(), libc::LOCK_UN);
        }
        false
    } else {
        true
    }
}

/// While every actor is parked: a published sidecar that carries `.complete` holds every
/// row-group file, complete and readable, with the footer's row counts.
fn published_invariant(parquet: &Path, rg_rows: &[i64]) -> Result<bool, String> {
    let dir = sidecar_dir(parquet);
    if !dir.join(".complete").is_file() {
        return Ok(false);
    }
    for (i, want) in rg_rows.iter().enumerate() {
        let f = dir.join(format!("rg_{:05}.arrow", i));
        let file = std::fs::File::open(&f).map_err(|e| format!("published sidecar has .complete but {} is missing: {e}", f.display()))?;
        let r = arrow::ipc::reader::FileReader::try_new(file, None).map_err(|e| format!("{} is not a complete IPC file: {e}", f.display()))?;
        let mut rows = 0i64;
        for b in r {
            rows += b.map_err(|e| format!("{}: {e}", f.display()))?.num_rows() as i64;
        }
        if rows != *want {
            return Err(format!("{} holds {rows} rows, the footer says {want}", f.display()));
        }
    }
    Ok(true)
}

struct ActorSpec {
    id: u32,
    foreign_pid: Option<u32>,
    queries: Vec<usize>,
}

pub fn run_c20(_p: &str, tier: Tier, run_seed: u64, _ov: &Value) -> RunOut {
    let mut rng = Rng::new(run_seed);
    let mut out = RunOut::default();
    let root = fresh_dir("sidecar");
    let path = root.join("t.parquet");
    // table: with dictionary-eligible strings (few or > 4096 distinct) or without
    let rows = 40 + rng.usize(if tier == Tier::Thorough { 9000 } else { 1500 });
    let string_kind = rng.below(3);
    // one table in sixteen has a row group larger than the sidecar writer's 64k slicing unit
    // (and not a multiple of it), which only a big single row group exercises
    let big = rng.fork(0xb16).chance(1, 16);
    let rows = if big { 65_536 + 1 + rng.fork(0xb17).usize(40_000) } else { rows };
    let t = Table {
        name: "t".into(),
        cols: vec![
            ColSpec { name: "id".into(), ty: Ty::I64, nulls16: 0, unique: true },
            ColSpec { name: "g".into(), ty: Ty::I64, nulls16: 0, unique: false },
            ColSpec { name: "s".into(), ty: Ty::Str, nulls16: 2, unique: false },
        ],
        data: vec![
            ColData::I64((0..rows as i64).map(Some).collect()),
            ColData::I64((0..rows as i64).map(|i| Some(i % 7)).collect()),
            ColData::Str((0..rows as i64).map(|i| if i % 8 == 0 { None } else { Some(match string_kind { 0 => format!("w{}", i % 3), 1 => format!("u{i}"), _ => format!("w{}", i % 5000) }) }).collect()),
        ],
        rows,
    };
    let n_rg_target = if big { 1 } else { 1 + rng.usize(6) };
    let lay = ParquetLayout { file_cuts: vec![], row_group_rows: (rows / n_rg_target).max(1), dictionary: string_kind != 1 || rng.coin(), stats: 2, stem: "t".into(), same_name_dirs: false, empty_row_groups: vec![] };
    datagen::write_parquet_file(&t, 0, rows, &path, &lay).unwrap();
    let rg_rows: Vec<i64> = crate::cluster::splits::footer_truth(&path).1.iter().map(|x| x.0).collect();

    query_engine::verif::knobs::clear();
    query_engine::verif::knobs::set("subquery.single_thread_runtime", 1);
    // expected answers with sidecars off
    query_engine::verif::knobs::set("ipc.mode", 0);
    let expected: Vec<Outcome> = {
        let pool = rayon::ThreadPoolBuilder::new().num_threads(1).build().unwrap();
        let rt = tokio::runtime::Builder::new_current_thread().enable_all().build().unwrap();
        pool.install(|| {
            rt.block_on(async {
                let mut ctx = ExecutionContext::new();
                ctx.register_parquet("t", &path).unwrap();
                let mut v = Vec::new();
                for q in QUERIES {
                    v.push(outcome_of(ctx.sql(q).await));
                }
                v
            })
        })
    };
    // initial conditions
    let initial = *rng.pick(&["none", "none", "stale-sidecar", "stale-sidecar", "dead-staging-dir", "fresh-sidecar"]);
    let mode = if initial == "none" && rng.chance(1, 6) { 1 } else { 2 };
    match initial {
        "stale-sidecar" => {
            let d = sidecar_dir(&path);
            std::fs::create_dir_all(&d).unwrap();
            std::fs::write(d.join(".complete"), "v1:0:0").unwrap();
            std::fs::write(d.join("rg_00000.arrow"), b"garbage").unwrap();
        }
        "dead-staging-dir" => {
            // what a builder killed mid-build leaves behind, under a pid that is reused
            let d = sidecar_dir(&path).with_extension(format!("{}.building", 7001));
            std::fs::create_dir_all(&d).unwrap();
            std::fs::write(d.join("rg_00000.arrow"), b"half").unwrap();
        }
        "fresh-sidecar" => {
            query_engine::verif::knobs::set("ipc.mode", 2);
            let pool = rayon::ThreadPoolBuilder::new().num_threads(1).build().unwrap();
            let rt = tokio::runtime::Builder::new_current_thread().enable_all().build().unwrap();
            pool.install(|| {
                rt.block_on(async {
                    let mut ctx = ExecutionContext::new();
                    ctx.register_parquet("t", &path).unwrap();
                    let _ = ctx.sql(QUERIES[0]).await;
                })
            });
        }
        _ => {}
    }
    query_engine::verif::knobs::set("ipc.mode", mode);

    // actors
    let n_actors = 2 + rng.usize(if tier == Tier::Thorough { 5 } else { 3 });
    let mut specs = Vec::new();
    for i in 0..n_actors as u32 {
        // a stale sidecar is replaced in two renames: the window between them needs two
        // builders of different processes and a reader, so such runs get mostly foreign actors
        let foreign = if initial == "stale-sidecar" { rng.chance(3, 4) } else { rng.chance(1, 2) };
        let nq = 1 + rng.usize(2);
        // live processes have distinct pids; the dead builder of the "dead-staging-dir"
        // initial condition used pid 7001, which a live actor may have been given again
        specs.push(ActorSpec { id: i, foreign_pid: if foreign { Some(7000 + i) } else { None }, queries: (0..nq).map(|_| rng.usize(QUERIES.len())).collect() });
    }
    let ctl = Arc::new(Ctl { m: Mutex::new(CtlState::default()), cv: Condvar::new() });
    ctl.m.lock().unwrap().live = specs.iter().map(|a| a.id).collect();
    park::attach(Some(ctl.clone() as Arc<dyn Controller>));
    let results: Arc<Mutex<Vec<(u32, usize, Outcome)>>> = Arc::new(Mutex::new(Vec::new()));
    let mut handles = Vec::new();
    for a in &specs {
        let (id, fp, queries) = (a.id, a.foreign_pid, a.queries.clone());
        let path = path.clone();
        let ctl = ctl.clone();
        let results = results.clone();
        handles.push(std::thread::spawn(move || {
            let r = std::panic::catch_unwind(std::panic::AssertUnwindSafe(|| {
                let pool = rayon::ThreadPoolBuilder::new().num_threads(1).build().unwrap();
                pool.install(|| {
                    park::set_actor(Some(id));
                    park::set_foreign_pid(fp);
                    park::point("actor.start");
                    let rt = tokio::runtime::Builder::new_current_thread().enable_all().build().unwrap();
                    rt.block_on(async {
                        let mut ctx = ExecutionContext::new();
                        match ctx.register_parquet("t", &path) {
                            Ok(()) => {
                                for qi in queries {
                                    let o = outcome_of(ctx.sql(QUERIES[qi]).await);
                                    results.lock().unwrap().push((id, qi, o));
                                }
                            }
                            Err(e) => results.lock().unwrap().push((id, usize::MAX, Outcome::Err { class: "execution", msg: e.to_string() })),
                        }
                    });
                    park::set_actor(None);
                    park::set_foreign_pid(None);
                })
            }));
            let killed = matches!(&r, Err(p) if p.is::<Killed>());
            let mut s = ctl.m.lock().unwrap();
            s.done.insert(id);
            s.parked.remove(&id);
            if s.lock_holder == Some(id) {
                s.lock_holder = None;
            }
            if s.publish_holder == Some(id) {
                s.publish_holder = None;
            }
            ctl.cv.notify_all();
            (id, killed, r.is_err() && !killed)
        }));
    }
    // the scheduler
    let mut watch = DirWatch::new(&path);
    let mut last_seen_whole = false;
    if let Some(w) = watch.as_mut() {
        w.watch_published(&path);
        out.bump("probe.inotify_observer_attached");
    }
    if initial == "fresh-sidecar" {
        last_seen_whole = matches!(published_invariant(&path, &rg_rows), Ok(true));
    }
    let mut trace: Vec<String> = Vec::new();
    let mut steps = 0;
    let max_steps = 400;
    let mut stuck = false;
    let mut killed_any = false;
    loop {
        let mut s = ctl.m.lock().unwrap();
        // wait until every live, not-done actor is parked
        let deadline = std::time::Instant::now() + Duration::from_secs(20);
        loop {
            // a release (or a kill) that its actor has not consumed yet is still in flight
            let in_flight = s.released.is_some() || s.kill.iter().any(|a| !s.done.contains(a));
            let waiting: Vec<u32> = if in_flight { vec![u32::MAX] } else { s.live.iter().filter(|a| !s.done.contains(a) && !s.parked.contains_key(a)).cloned().collect() };
            // an actor blocked on the real build lock (released past lock.before while another holds it) cannot park
            if waiting.is_empty() {
                break;
            }
            let (g, to) = ctl.cv.wait_timeout(s, Duration::from_millis(200)).unwrap();
            s = g;
            if to.timed_out() && std::time::Instant::now() > deadline {
                stuck = true;
                break;
            }
        }
        if stuck {
            break;
        }
        if s.live.iter().all(|a| s.done.contains(a)) {
            break;
        }
        // everyone is parked: the published sidecar must be whole
        let parked_snapshot = s.parked.clone();
        let lock_holder = s.lock_holder;
        let announced_holder = s.publish_holder;
        drop(s);
        let publish_locked = publish_lock_held(&path);
        if announced_holder.is_some() && !publish_locked {
            out.bump("probe.publish_lock_announced_but_not_held");
        }
        // what the step just taken did to the directory at the published path: entries of a
        // sidecar that was whole before the step must not be unlinked while it stands there
        if let Some(w) = watch.as_mut() {
            let removed = w.drain();
            if !removed.is_empty() && last_seen_whole {
                out.violations.push(viol("no-partial-sidecar-visible", "published-sidecar-unlinked-in-place", vec![format!("initial:{initial}")],
                    format!("step {}: {} entries ({:?} ...) of the published, complete sidecar were unlinked while the directory still stood at its published path; a reader of another process could open it half-deleted", trace.last().cloned().unwrap_or_default(), removed.len(), removed.iter().take(3).collect::<Vec<_>>()), json!({"trace": trace})));
            }
            w.watch_published(&path);
        }
        last_seen_whole = false;
        if initial != "stale-sidecar" || steps > 0 {
            match published_invariant(&path, &rg_rows) {
                Ok(true) => {
                    last_seen_whole = true;
                    out.bump("probe.published_sidecar_seen_whole")
                }
                Ok(false) => {}
                Err(e) => {
                    if !(initial == "stale-sidecar" && e.contains("not a complete IPC")) {
                        out.violations.push(viol("no-partial-sidecar-visible", "partial-sidecar-published", vec![format!("initial:{initial}")], e, json!({"trace": trace})));
                    }
                }
            }
        }
        // never release an actor into a lock another parked actor holds
        let mut cands: Vec<u32> = parked_snapshot
            .iter()
            .filter(|(_, site)| !(**site == "ipc.lock.before" && lock_holder.is_some()) && !(**site == "ipc.build.before_publish" && publish_locked))
            .map(|(a, _)| *a)
            .collect();
        if cands.is_empty() {
            stuck = true;
            break;
        }
        cands.sort();
        let pick = *rng.pick(&cands);
        let site = parked_snapshot[&pick];
        let foreign = specs.iter().find(|a| a.id == pick).unwrap().foreign_pid.is_some();
        // a foreign process may die at any point of a build
        let kill = foreign && site.starts_with("ipc.build.") && rng.chance(1, 12);
        trace.push(format!("{pick}{}@{site}{}", if foreign { "f" } else { "" }, if kill { "!KILL" } else { "" }));
        let mut s = ctl.m.lock().unwrap();
        if kill {
            s.kill.insert(pick);
            killed_any = true;
            out.bump("fault.builder_killed.armed");
            out.bump("fault.builder_killed.fired");
        } else {
            s.released = Some(pick);
        }
        ctl.cv.notify_all();
        drop(s);
        steps += 1;
        if steps > max_steps {
            stuck = true;
            break;
        }
    }
    if !stuck {
        if let Some(w) = watch.as_mut() {
            let removed = w.drain();
            if !removed.is_empty() && last_seen_whole {
                out.violations.push(viol("no-partial-sidecar-visible", "published-sidecar-unlinked-in-place", vec![format!("initial:{initial}")],
                    format!("last step {}: {} entries of the published, complete sidecar were unlinked while the directory still stood at its published path", trace.last().cloned().unwrap_or_default(), removed.len()), json!({"trace": trace})));
            }
        }
    }
    if stuck {
        // release everything so threads can finish; no verdict from a stuck controller
        let mut s = ctl.m.lock().unwrap();
        let live: Vec<u32> = s.live.iter().cloned().collect();
        s.live.clear();
        for a in live {
            s.kill.insert(a);
        }
        ctl.cv.notify_all();
        drop(s);
        out.bump("n.controller_stuck");
    }
    let mut actor_panics = 0;
    for h in handles {
        if let Ok((_, _killed, panicked)) = h.join() {
            if panicked {
                actor_panics += 1;
            }
        }
    }
    park::attach(None);
    query_engine::verif::knobs::clear();
    // ---- oracle: every reader's every query equals the sidecar-off answer
    let feats_base = vec![format!("initial:{initial}"), format!("mode:{}", if mode == 2 { "build" } else { "auto" }), format!("strings:{}", ["few", "unique", "wide"][string_kind as usize])];
    if !stuck {
        if actor_panics > 0 {
            out.violations.push(viol("no-wrong-answer", "actor-panicked", feats_base.clone(), format!("{actor_panics} actor thread(s) panicked inside the engine"), json!({"trace": trace})));
        }
        for (id, qi, got) in results.lock().unwrap().iter() {
            if *qi == usize::MAX {
                out.violations.push(viol("no-wrong-answer", "register-failed", feats_base.clone(), format!("actor {id}: register_parquet failed: {:?}", got.brief()), json!({"trace": trace})));
                continue;
            }
            let st = Stmt { sql: QUERIES[*qi].to_string(), family: "sidecar", order_keys: vec![], tables: vec![], features: vec![] };
            let want = &expected[*qi];
            let bad = match (want, got) {
                (Outcome::Rows(_), Outcome::Rows(_)) => compare(&st, want, got).err(),
                (Outcome::Rows(_), Outcome::Err { class, msg }) => Some((format!("error-instead-of-rows:{class}"), msg.clone())),
                _ => None,
            };
            if let Some((sym, d)) = bad {
                let foreign = specs.iter().find(|a| a.id == *id).unwrap().foreign_pid.is_some();
                let mut f = feats_base.clone();
                f.push(format!("reader:{}", if foreign { "other-process" } else { "this-process" }));
                f.push(format!("builders:{}", if specs.iter().any(|a| a.foreign_pid.is_some()) { "cross-process" } else { "in-process" }));
                if killed_any {
                    f.push("builder-killed".into());
                }
                if let Outcome::Err { msg, .. } = got {
                    f.push(format!("err:{}", crate::cluster::runs::err_token(msg)));
                }
                out.violations.push(viol("no-wrong-answer", if sym.starts_with("error") { "error-instead-of-rows" } else { "wrong-rows" }, f,
                    format!("actor {id} `{}`: {d}", QUERIES[*qi]), json!({"trace": trace, "actors": specs.iter().map(|a| json!({"id": a.id, "foreign_pid": a.foreign_pid, "queries": a.queries})).collect::<Vec<_>>()})));
            }
        }
        let kinds: String = trace.iter().map(|t| t.split('@').nth(1).unwrap_or("")).collect::<Vec<_>>().join(",");
        out.case_hashes.push(fnv(kinds.as_bytes()) ^ fnv(initial.as_bytes()));
        if trace.iter().any(|t| t.contains("ipc.build.final_removed")) && trace.iter().any(|t| t.contains("ipc.read.")) {
            out.bump("probe.reader_and_publisher_interleaved");
        }
        if specs.iter().filter(|a| a.foreign_pid.is_some()).count() >= 2 {
            out.bump("probe.two_foreign_builders");
        }
    }
    out.sample = Some(json!({"initial": initial, "actors": specs.iter().map(|a| json!({"id": a.id, "foreign_pid": a.foreign_pid})).collect::<Vec<_>>(), "trace": trace.iter().take(60).collect::<Vec<_>>()}));
    out.log_hash = fnv(trace.join(" ").as_bytes()) ^ fnv(format!("{}", out.violations.len()).as_bytes());
    let _ = std::fs::remove_dir_all(&root);
    let mut seen = BTreeSet::new();
    out.violations.retain(|v| seen.insert((v.clause.clone(), v.symptom.clone(), v.features.clone())));
    out
}
