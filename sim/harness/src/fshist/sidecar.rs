//! C20 — IPC sidecars are invisible and safe to build concurrently (placeholder until built).
