//! Canonical rendering and comparison of query results.

use arrow::array::*;
use arrow::datatypes::DataType;
use arrow::record_batch::RecordBatch;
use std::cmp::Ordering;

#[derive(Clone, Debug)]
pub enum Cell {
    Null,
    Int(i128),
    Float(f64),
    Str(String),
    Bool(bool),
    Other(String),
}

impl Cell {
    fn rank(&self) -> u8 {
        match self {
            Cell::Null => 0,
            Cell::Bool(_) => 1,
            Cell::Int(_) => 2,
            Cell::Float(_) => 2,
            Cell::Str(_) => 3,
            Cell::Other(_) => 4,
        }
    }
    fn as_f64(&self) -> Option<f64> {
        match self {
            Cell::Int(i) => Some(*i as f64),
            Cell::Float(f) => Some(*f),
            _ => None,
        }
    }
    pub fn render(&self) -> String {
        match self {
            Cell::Null => "NULL".into(),
            Cell::Int(i) => i.to_string(),
            Cell::Float(f) => {
                if f.is_nan() {
                    "NaN".into()
                } else if *f == 0.0 {
                    "0.0".into()
                } else {
                    format!("{:?}", f)
                }
            }
            Cell::Str(s) => format!("{:?}", s),
            Cell::Bool(b) => b.to_string(),
            Cell::Other(s) => format!("<{}>", s),
        }
    }
}

/// Coarse ordering used only to line rows up before the tolerant comparison.
fn coarse_cmp(a: &Cell, b: &Cell) -> Ordering {
    let (ra, rb) = (a.rank(), b.rank());
    if ra != rb {
        return ra.cmp(&rb);
    }
    match (a, b) {
        (Cell::Null, Cell::Null) => Ordering::Equal,
        (Cell::Bool(x), Cell::Bool(y)) => x.cmp(y),
        (Cell::Int(x), Cell::Int(y)) => x.cmp(y),
        (Cell::Str(x), Cell::Str(y)) => x.cmp(y),
        (Cell::Other(x), Cell::Other(y)) => x.cmp(y),
        _ => {
            let (x, y) = (a.as_f64().unwrap(), b.as_f64().unwrap());
            let (x, y) = (round_sig(x), round_sig(y));
            x.partial_cmp(&y).unwrap_or_else(|| x.is_nan().cmp(&y.is_nan()))
        }
    }
}

fn round_sig(x: f64) -> f64 {
    if x == 0.0 || !x.is_finite() {
        return if x == 0.0 { 0.0 } else { x };
    }
    let mag = x.abs().log10().floor();
    let scale = 10f64.powf(9.0 - mag);
    (x * scale).round() / scale
}

pub fn cell_eq(a: &Cell, b: &Cell) -> bool {
    match (a, b) {
        (Cell::Null, Cell::Null) => true,
        (Cell::Bool(x), Cell::Bool(y)) => x == y,
        (Cell::Int(x), Cell::Int(y)) => x == y,
        (Cell::Str(x), Cell::Str(y)) => x == y,
        (Cell::Other(x), Cell::Other(y)) => x == y,
        (Cell::Int(_), Cell::Float(_)) | (Cell::Float(_), Cell::Int(_)) | (Cell::Float(_), Cell::Float(_)) => {
            let (x, y) = (a.as_f64().unwrap(), b.as_f64().unwrap());
            if x.is_nan() || y.is_nan() {
                return x.is_nan() && y.is_nan();
            }
            if x == y {
                return true;
            }
            let d = (x - y).abs();
            d <= 1e-9 * x.abs().max(y.abs()).max(1e-300)
        }
        _ => false,
    }
}

pub type Row = Vec<Cell>;

pub fn row_eq(a: &Row, b: &Row) -> bool {
    a.len() == b.len() && a.iter().zip(b).all(|(x, y)| cell_eq(x, y))
}

fn row_cmp(a: &Row, b: &Row) -> Ordering {
    for (x, y) in a.iter().zip(b) {
        let o = coarse_cmp(x, y);
        if o != Ordering::Equal {
            return o;
        }
    }
    a.len().cmp(&b.len())
}

pub fn render_row(r: &Row) -> String {
    r.iter().map(|c| c.render()).collect::<Vec<_>>().join(" | ")
}

fn cell_at(col: &ArrayRef, i: usize) -> Cell {
    if col.is_null(i) {
        return Cell::Null;
    }
    macro_rules! prim {
        ($t:ty, $f:expr) => {{
            let a = col.as_any().downcast_ref::<$t>().unwrap();
            $f(a.value(i))
        }};
    }
    match col.data_type() {
        DataType::Int8 => prim!(Int8Array, |v| Cell::Int(v as i128)),
        DataType::Int16 => prim!(Int16Array, |v| Cell::Int(v as i128)),
        DataType::Int32 => prim!(Int32Array, |v| Cell::Int(v as i128)),
        DataType::Int64 => prim!(Int64Array, |v| Cell::Int(v as i128)),
        DataType::UInt8 => prim!(UInt8Array, |v| Cell::Int(v as i128)),
        DataType::UInt16 => prim!(UInt16Array, |v| Cell::Int(v as i128)),
        DataType::UInt32 => prim!(UInt32Array, |v| Cell::Int(v as i128)),
        DataType::UInt64 => prim!(UInt64Array, |v| Cell::Int(v as i128)),
        DataType::Float32 => prim!(Float32Array, |v: f32| Cell::Float(v as f64)),
        DataType::Float64 => prim!(Float64Array, |v: f64| Cell::Float(v)),
        DataType::Boolean => prim!(BooleanArray, |v| Cell::Bool(v)),
        DataType::Utf8 => prim!(StringArray, |v: &str| Cell::Str(v.to_string())),
        DataType::LargeUtf8 => prim!(LargeStringArray, |v: &str| Cell::Str(v.to_string())),
        DataType::Utf8View => prim!(StringViewArray, |v: &str| Cell::Str(v.to_string())),
        // dates are rendered as their day number, tagged, so DATE and INT never compare equal by accident
        DataType::Date32 => prim!(Date32Array, |v: i32| Cell::Other(format!("date:{v}"))),
        DataType::Date64 => prim!(Date64Array, |v: i64| Cell::Other(format!("date:{}", v / 86_400_000))),
        DataType::Decimal128(_, s) => {
            let a = col.as_any().downcast_ref::<Decimal128Array>().unwrap();
            Cell::Float(a.value(i) as f64 / 10f64.powi(*s as i32))
        }
        DataType::Dictionary(_, v) => {
            match arrow::compute::cast(col.as_ref(), v) {
                Ok(plain) => cell_at(&plain, i),
                Err(e) => Cell::Other(format!("dict-cast-error:{e}")),
            }
        }
        other => {
            let opts = arrow::util::display::FormatOptions::default();
            match arrow::util::display::ArrayFormatter::try_new(col.as_ref(), &opts) {
                Ok(f) => Cell::Other(format!("{}:{}", other, f.value(i))),
                Err(_) => Cell::Other(format!("{other}")),
            }
        }
    }
}

pub fn rows_of(batches: &[RecordBatch]) -> Vec<Row> {
    let mut out = Vec::new();
    for b in batches {
        // cast dictionary columns once per batch
        let cols: Vec<ArrayRef> = b
            .columns()
            .iter()
            .map(|c| match c.data_type() {
                DataType::Dictionary(_, v) => arrow::compute::cast(c.as_ref(), v).unwrap_or_else(|_| c.clone()),
                _ => c.clone(),
            })
            .collect();
        for i in 0..b.num_rows() {
            out.push(cols.iter().map(|c| cell_at(c, i)).collect());
        }
    }
    out
}

/// Multiset comparison.  Ok(()) or a human-readable description of the first difference.
pub fn same_multiset(a: &[Row], b: &[Row]) -> Result<(), String> {
    if a.len() != b.len() {
        return Err(format!("row count {} vs {}", a.len(), b.len()));
    }
    let mut x: Vec<&Row> = a.iter().collect();
    let mut y: Vec<&Row> = b.iter().collect();
    x.sort_by(|p, q| row_cmp(p, q));
    y.sort_by(|p, q| row_cmp(p, q));
    let first_bad = x.iter().zip(&y).position(|(p, q)| !row_eq(p, q));
    let Some(bad) = first_bad else { return Ok(()) };
    // The coarse sort can misplace rows whose floats straddle a rounding boundary; before
    // reporting, try an exact tolerant matching (quadratic, bounded).
    if a.len() <= 3000 {
        let mut used = vec![false; y.len()];
        let mut all = true;
        'outer: for p in &x {
            for (j, q) in y.iter().enumerate() {
                if !used[j] && row_eq(p, q) {
                    used[j] = true;
                    continue 'outer;
                }
            }
            all = false;
            break;
        }
        if all {
            return Ok(());
        }
    }
    Err(format!(
        "rows differ (sorted position {bad}): [{}] vs [{}]",
        render_row(x[bad]),
        render_row(y[bad])
    ))
}

/// Sequence comparison on the first `nkeys`... callers pass the indices of the ORDER BY
/// key columns in the output; the key tuples must match position by position, the rest
/// as a multiset.
pub fn same_ordered(a: &[Row], b: &[Row], key_cols: &[usize]) -> Result<(), String> {
    same_multiset(a, b)?;
    for (i, (p, q)) in a.iter().zip(b).enumerate() {
        for &k in key_cols {
            if k < p.len() && k < q.len() && !cell_eq(&p[k], &q[k]) {
                return Err(format!(
                    "order differs at row {i}, key column {k}: [{}] vs [{}]",
                    render_row(p),
                    render_row(q)
                ));
            }
        }
    }
    Ok(())
}

/// Stable digest of a multiset (exact rendering; used for logs and distinct counting
/// only, never as an oracle).
pub fn digest(rows: &[Row]) -> u64 {
    let mut rendered: Vec<String> = rows.iter().map(render_row).collect();
    rendered.sort();
    let mut h: u64 = 0xcbf29ce484222325;
    for r in rendered {
        for b in r.as_bytes() {
            h ^= *b as u64;
            h = h.wrapping_mul(0x100000001b3);
        }
        h ^= 0xff;
        h = h.wrapping_mul(0x100000001b3);
    }
    h
}

pub fn sample(rows: &[Row], n: usize) -> Vec<String> {
    rows.iter().take(n).map(render_row).collect()
}
