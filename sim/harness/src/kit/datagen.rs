//! Seeded table generator.  A table is held as plain vectors (the *truth* every oracle
//! compares against) and can be materialised as Arrow batches under any batch split or
//! as Parquet files under any file / row-group layout.

use super::rng::Rng;
use arrow::array::*;
use arrow::datatypes::{DataType, Field, Schema, SchemaRef};
use arrow::record_batch::RecordBatch;
use parquet::arrow::ArrowWriter;
use parquet::file::properties::{EnabledStatistics, WriterProperties};
use std::path::{Path, PathBuf};
use std::sync::Arc;

#[derive(Clone, Copy, Debug, PartialEq, Eq)]
pub enum Ty {
    I64,
    I32,
    F64,
    Str,
    Date,
    Bool,
}

impl Ty {
    pub fn arrow(&self) -> DataType {
        match self {
            Ty::I64 => DataType::Int64,
            Ty::I32 => DataType::Int32,
            Ty::F64 => DataType::Float64,
            Ty::Str => DataType::Utf8,
            Ty::Date => DataType::Date32,
            Ty::Bool => DataType::Boolean,
        }
    }
    pub fn is_int(&self) -> bool {
        matches!(self, Ty::I64 | Ty::I32)
    }
    pub fn is_numeric(&self) -> bool {
        matches!(self, Ty::I64 | Ty::I32 | Ty::F64)
    }
}

#[derive(Clone, Debug)]
pub enum ColData {
    I64(Vec<Option<i64>>),
    I32(Vec<Option<i32>>),
    F64(Vec<Option<f64>>),
    Str(Vec<Option<String>>),
    Date(Vec<Option<i32>>),
    Bool(Vec<Option<bool>>),
}

impl ColData {
    pub fn len(&self) -> usize {
        match self {
            ColData::I64(v) => v.len(),
            ColData::I32(v) => v.len(),
            ColData::F64(v) => v.len(),
            ColData::Str(v) => v.len(),
            ColData::Date(v) => v.len(),
            ColData::Bool(v) => v.len(),
        }
    }
    pub fn slice(&self, lo: usize, hi: usize) -> ColData {
        match self {
            ColData::I64(v) => ColData::I64(v[lo..hi].to_vec()),
            ColData::I32(v) => ColData::I32(v[lo..hi].to_vec()),
            ColData::F64(v) => ColData::F64(v[lo..hi].to_vec()),
            ColData::Str(v) => ColData::Str(v[lo..hi].to_vec()),
            ColData::Date(v) => ColData::Date(v[lo..hi].to_vec()),
            ColData::Bool(v) => ColData::Bool(v[lo..hi].to_vec()),
        }
    }
    pub fn to_array(&self) -> ArrayRef {
        match self {
            ColData::I64(v) => Arc::new(Int64Array::from(v.clone())),
            ColData::I32(v) => Arc::new(Int32Array::from(v.clone())),
            ColData::F64(v) => Arc::new(Float64Array::from(v.clone())),
            ColData::Str(v) => Arc::new(StringArray::from(
                v.iter().map(|o| o.as_deref()).collect::<Vec<_>>(),
            )),
            ColData::Date(v) => Arc::new(Date32Array::from(v.clone())),
            ColData::Bool(v) => Arc::new(BooleanArray::from(v.clone())),
        }
    }
    /// A SQL literal of the value at row `i` (None when the cell is NULL).
    pub fn literal(&self, i: usize) -> Option<String> {
        match self {
            ColData::I64(v) => v[i].map(|x| x.to_string()),
            ColData::I32(v) => v[i].map(|x| x.to_string()),
            ColData::F64(v) => v[i].map(fmt_f64),
            ColData::Str(v) => v[i].as_ref().map(|s| format!("'{}'", s.replace('\'', "''"))),
            ColData::Date(v) => v[i].map(date_literal),
            ColData::Bool(v) => v[i].map(|b| if b { "TRUE".into() } else { "FALSE".into() }),
        }
    }
}

pub fn fmt_f64(x: f64) -> String {
    if x == x.trunc() && x.abs() < 1e15 {
        format!("{:.1}", x)
    } else {
        format!("{}", x)
    }
}

/// days since epoch -> DATE 'yyyy-mm-dd'
pub fn date_literal(days: i32) -> String {
    // civil-from-days (Howard Hinnant)
    let z = days as i64 + 719468;
    let era = z.div_euclid(146097);
    let doe = z.rem_euclid(146097);
    let yoe = (doe - doe / 1460 + doe / 36524 - doe / 146096) / 365;
    let y = yoe + era * 400;
    let doy = doe - (365 * yoe + yoe / 4 - yoe / 100);
    let mp = (5 * doy + 2) / 153;
    let d = doy - (153 * mp + 2) / 5 + 1;
    let m = if mp < 10 { mp + 3 } else { mp - 9 };
    let y = if m <= 2 { y + 1 } else { y };
    format!("DATE '{:04}-{:02}-{:02}'", y, m, d)
}

#[derive(Clone, Debug)]
pub struct ColSpec {
    pub name: String,
    pub ty: Ty,
    /// nulls per 16 rows (0 = none, 16 = all)
    pub nulls16: u8,
    pub unique: bool,
}

#[derive(Clone, Debug)]
pub struct Table {
    pub name: String,
    pub cols: Vec<ColSpec>,
    pub data: Vec<ColData>,
    pub rows: usize,
}

/// Low-cardinality strings, deliberately including the empty string, non-ASCII text,
/// a quote and a space.
pub const WORDS: &[&str] = &[
    "alpha", "beta", "gamma", "δelta", "", "Ünï", "z z", "it's", "omega", "Beta", "al", "alphabet",
];

#[derive(Clone, Debug)]
pub struct GenProfile {
    pub min_rows: usize,
    pub max_rows: usize,
    /// chance (out of 16) that a table is empty
    pub empty16: u64,
    /// always include these column names (from the pool) when Some
    pub force_cols: Option<Vec<&'static str>>,
    pub max_extra_cols: usize,
}

impl Default for GenProfile {
    fn default() -> Self {
        GenProfile { min_rows: 1, max_rows: 3000, empty16: 1, force_cols: None, max_extra_cols: 6 }
    }
}

/// The column pool.  Names are shared across tables on purpose (same-named columns in
/// different tables are what makes a pruned gather observable, and give join keys).
pub const POOL: &[(&str, Ty)] = &[
    ("k", Ty::I64),  // narrow-range key, duplicates, negative values
    ("w", Ty::I64),  // wide-range key (range >> row count), duplicates
    ("i", Ty::I32),  // medium cardinality
    ("v", Ty::F64),  // dyadic doubles (sums exact)
    ("s", Ty::Str),  // low cardinality strings
    ("u", Ty::Str),  // high cardinality strings
    ("d", Ty::Date), // dates
    ("b", Ty::Bool),
    ("q", Ty::I64),  // small non-negative quantities, rarely NULL
];

pub fn gen_table(rng: &mut Rng, name: &str, prof: &GenProfile) -> Table {
    let rows = if rng.chance(prof.empty16, 16) {
        0
    } else {
        // log-uniform-ish between min and max
        let lo = prof.min_rows.max(1) as f64;
        let hi = prof.max_rows.max(prof.min_rows.max(1)) as f64;
        let t = rng.below(1 << 20) as f64 / (1 << 20) as f64;
        (lo * (hi / lo).powf(t)).round() as usize
    };
    gen_table_rows(rng, name, rows, prof)
}

pub fn gen_table_rows(rng: &mut Rng, name: &str, rows: usize, prof: &GenProfile) -> Table {
    let mut chosen: Vec<(&str, Ty)> = Vec::new();
    match &prof.force_cols {
        Some(f) => {
            for n in f {
                chosen.push(*POOL.iter().find(|(p, _)| p == n).expect("pool column"));
            }
            let rest: Vec<_> = POOL.iter().filter(|(p, _)| !f.contains(p)).cloned().collect();
            let extra = rng.usize(prof.max_extra_cols.min(rest.len()) + 1);
            let mut rest = rest;
            rng.shuffle(&mut rest);
            chosen.extend(rest.into_iter().take(extra));
        }
        None => {
            let mut pool: Vec<_> = POOL.to_vec();
            rng.shuffle(&mut pool);
            let n = 2 + rng.usize(prof.max_extra_cols.min(pool.len() - 2) + 1);
            chosen.extend(pool.into_iter().take(n));
        }
    }
    // stable, readable column order: pool order, then a seeded rotation
    chosen.sort_by_key(|(n, _)| POOL.iter().position(|(p, _)| p == n).unwrap());
    let rot = rng.usize(chosen.len());
    chosen.rotate_left(rot);

    let mut cols = vec![ColSpec { name: "id".into(), ty: Ty::I64, nulls16: 0, unique: true }];
    let mut data = Vec::new();
    // id: unique, sometimes clustered (sequential), sometimes shuffled
    let mut ids: Vec<i64> = (0..rows as i64).collect();
    if rng.coin() {
        rng.shuffle(&mut ids);
    }
    data.push(ColData::I64(ids.into_iter().map(Some).collect()));

    for (cname, ty) in chosen {
        let nulls16: u8 = match rng.below(8) {
            0 | 1 | 2 => 0,
            3 | 4 => 1,
            5 | 6 => 5,
            _ => {
                if rng.chance(1, 4) {
                    16
                } else {
                    12
                }
            }
        };
        let nulls16 = if cname == "q" { nulls16.min(1) } else { nulls16 };
        let clustered = rng.chance(1, 3);
        let col = gen_col(rng, cname, ty, rows, nulls16, clustered);
        cols.push(ColSpec { name: cname.to_string(), ty, nulls16, unique: false });
        data.push(col);
    }
    Table { name: name.to_string(), cols, data, rows }
}

fn gen_col(rng: &mut Rng, cname: &str, ty: Ty, rows: usize, nulls16: u8, clustered: bool) -> ColData {
    let is_null = |rng: &mut Rng| rng.below(16) < nulls16 as u64;
    match (cname, ty) {
        ("k", _) => {
            let lo = -(rng.below(4) as i64);
            let hi = lo + 1 + rng.below(14) as i64;
            let mut v: Vec<Option<i64>> =
                (0..rows).map(|_| if is_null(rng) { None } else { Some(rng.range(lo, hi)) }).collect();
            if clustered {
                v.sort();
            }
            ColData::I64(v)
        }
        ("w", _) => {
            // a few hundred distinct values spread over a range far wider than the row count
            let distinct = 1 + rng.below(400);
            let base: Vec<i64> = (0..distinct)
                .map(|_| rng.range(-(1 << 20), 1 << 38))
                .collect();
            let mut v: Vec<Option<i64>> = (0..rows)
                .map(|_| if is_null(rng) { None } else { Some(*rng.pick(&base)) })
                .collect();
            if clustered {
                v.sort();
            }
            ColData::I64(v)
        }
        ("q", _) => ColData::I64(
            (0..rows).map(|_| if is_null(rng) { None } else { Some(rng.range(0, 50)) }).collect(),
        ),
        ("i", _) => {
            let hi = 1 + rng.below(2000) as i64;
            let mut v: Vec<Option<i32>> = (0..rows)
                .map(|_| if is_null(rng) { None } else { Some(rng.range(-5, hi) as i32) })
                .collect();
            if clustered {
                v.sort();
            }
            ColData::I32(v)
        }
        ("v", _) => ColData::F64(
            (0..rows)
                .map(|_| {
                    if is_null(rng) {
                        None
                    } else {
                        Some(match rng.below(40) {
                            0 => 0.0,
                            1 => -0.0,
                            2 => 1048576.0,
                            3 => -1048576.0,
                            _ => rng.range(-(1 << 24), 1 << 24) as f64 / 16.0,
                        })
                    }
                })
                .collect(),
        ),
        ("s", _) => {
            let n = 1 + rng.usize(WORDS.len());
            // one table in four spells its low-cardinality strings with a long common prefix
            // and equal length (`customer_0007`): keys that agree in their first 8 bytes and
            // their length, which prefix-based key encodings must still tell apart
            let long_prefix = rng.fork(0x10c9).chance(1, 4);
            ColData::Str(
                (0..rows)
                    .map(|_| {
                        if is_null(rng) {
                            None
                        } else {
                            let i = rng.usize(n);
                            Some(if long_prefix { format!("customer_{i:04}") } else { WORDS[i].to_string() })
                        }
                    })
                    .collect(),
            )
        }
        ("u", _) => ColData::Str(
            (0..rows)
                .map(|_| {
                    if is_null(rng) {
                        None
                    } else {
                        Some(format!("u{:06}-{}", rng.below(1_000_000), WORDS[rng.usize(4)]))
                    }
                })
                .collect(),
        ),
        ("d", _) => {
            let span = 1 + rng.below(4000) as i64;
            let mut v: Vec<Option<i32>> = (0..rows)
                .map(|_| if is_null(rng) { None } else { Some((8000 + rng.range(0, span)) as i32) })
                .collect();
            if clustered {
                v.sort();
            }
            ColData::Date(v)
        }
        ("b", _) => ColData::Bool(
            (0..rows).map(|_| if is_null(rng) { None } else { Some(rng.coin()) }).collect(),
        ),
        _ => unreachable!("unknown pool column {cname} {ty:?}"),
    }
}

impl Table {
    pub fn schema(&self) -> SchemaRef {
        Arc::new(Schema::new(
            self.cols.iter().map(|c| Field::new(&c.name, c.ty.arrow(), true)).collect::<Vec<_>>(),
        ))
    }
    pub fn col(&self, name: &str) -> Option<usize> {
        self.cols.iter().position(|c| c.name == name)
    }
    pub fn batch(&self, lo: usize, hi: usize) -> RecordBatch {
        let arrays: Vec<ArrayRef> = self.data.iter().map(|c| c.slice(lo, hi).to_array()).collect();
        RecordBatch::try_new(self.schema(), arrays).expect("consistent table")
    }
    /// Batches at the given cut points (sorted offsets in 0..=rows; equal neighbours give
    /// empty batches).
    pub fn batches(&self, cuts: &[usize]) -> Vec<RecordBatch> {
        let mut out = Vec::new();
        let mut lo = 0;
        for &c in cuts {
            out.push(self.batch(lo, c));
            lo = c;
        }
        out.push(self.batch(lo, self.rows));
        out
    }
    pub fn one_batch(&self) -> Vec<RecordBatch> {
        vec![self.batch(0, self.rows)]
    }
    /// Keep only rows in lo..hi (used by the shrinker).
    pub fn restrict(&self, lo: usize, hi: usize) -> Table {
        Table {
            name: self.name.clone(),
            cols: self.cols.clone(),
            data: self.data.iter().map(|c| c.slice(lo, hi)).collect(),
            rows: hi - lo,
        }
    }
}

/// A seeded split of `rows` into batches: returns sorted cut offsets.
pub fn gen_cuts(rng: &mut Rng, rows: usize, max_batches: usize) -> Vec<usize> {
    if rows == 0 || max_batches <= 1 {
        return vec![];
    }
    let n = rng.usize(max_batches);
    let mut cuts: Vec<usize> = (0..n).map(|_| rng.usize(rows + 1)).collect();
    cuts.sort();
    cuts
}

/// As `gen_cuts`, and half of the time with one to three cut points repeated (or placed at
/// the very start / end), so the split contains EMPTY batches at seeded positions.
pub fn gen_cuts_holes(rng: &mut Rng, rows: usize, max_batches: usize) -> Vec<usize> {
    let mut cuts = gen_cuts(rng, rows, max_batches);
    if rows > 0 && rng.coin() {
        for _ in 0..1 + rng.usize(3) {
            let c = match rng.below(4) {
                0 => 0,
                1 => rows,
                _ if !cuts.is_empty() => cuts[rng.usize(cuts.len())],
                _ => rng.usize(rows + 1),
            };
            cuts.push(c);
        }
        cuts.sort();
    }
    cuts
}

#[derive(Clone, Debug)]
pub struct ParquetLayout {
    /// row offsets at which a new file starts (sorted, within 0..=rows)
    pub file_cuts: Vec<usize>,
    pub row_group_rows: usize,
    pub dictionary: bool,
    /// 0 = none, 1 = chunk, 2 = page
    pub stats: u8,
    /// file name stem; files are `<stem>-<n>.parquet`
    pub stem: String,
    /// place each file in its own sub-directory using the SAME file name (Iceberg
    /// partition-directory shape)
    pub same_name_dirs: bool,
    /// zero-row row groups to splice into every file: each entry k puts one empty row group
    /// in front of the file's k-th populated one (k past the end: after the last). A footer
    /// may hold such groups (ArrowWriter never emits them; other writers do).
    pub empty_row_groups: Vec<usize>,
}

pub fn gen_layout(rng: &mut Rng, rows: usize, max_files: usize) -> ParquetLayout {
    let nfiles = 1 + rng.usize(max_files.max(1));
    let mut file_cuts: Vec<usize> = (1..nfiles).map(|_| rng.usize(rows + 1)).collect();
    file_cuts.sort();
    let rg = match rng.below(6) {
        0 => 1 + rng.usize(8),
        1 => 16 + rng.usize(100),
        2 => 128,
        3 => 1024,
        4 => 1 + rng.usize(rows.max(1)),
        _ => 4096,
    };
    // at most ~300 row groups per table: thousands of one-row groups are not a shape a
    // writer produces, and every split of such a table costs a reader open
    let rg = rg.max(rows / 300 + 1);
    ParquetLayout {
        file_cuts,
        row_group_rows: rg.max(1),
        dictionary: rng.coin(),
        stats: *rng.pick(&[0u8, 1, 1, 2, 2]),
        stem: "part".into(),
        same_name_dirs: false,
        empty_row_groups: {
            // from a forked stream so the other layout draws do not shift
            let mut er = rng.fork(0xe3b7);
            if er.chance(1, 6) {
                (0..1 + er.usize(3)).map(|_| er.usize(6)).collect()
            } else {
                vec![]
            }
        },
    }
}

/// Write the table under `dir` with the layout; returns the file paths in write order.
pub fn write_parquet(t: &Table, dir: &Path, lay: &ParquetLayout) -> std::io::Result<Vec<PathBuf>> {
    std::fs::create_dir_all(dir)?;
    let mut bounds = vec![0usize];
    bounds.extend(lay.file_cuts.iter().cloned());
    bounds.push(t.rows);
    let mut out = Vec::new();
    for f in 0..bounds.len() - 1 {
        let (lo, hi) = (bounds[f], bounds[f + 1]);
        let path = if lay.same_name_dirs {
            let d = dir.join(format!("p={f}"));
            std::fs::create_dir_all(&d)?;
            d.join(format!("{}-0.parquet", lay.stem))
        } else {
            dir.join(format!("{}-{:03}.parquet", lay.stem, f))
        };
        write_parquet_file(t, lo, hi, &path, lay)?;
        out.push(path);
    }
    Ok(out)
}

pub fn write_parquet_file(
    t: &Table,
    lo: usize,
    hi: usize,
    path: &Path,
    lay: &ParquetLayout,
) -> std::io::Result<()> {
    let props = WriterProperties::builder()
        .set_max_row_group_size(lay.row_group_rows)
        .set_dictionary_enabled(lay.dictionary)
        .set_statistics_enabled(match lay.stats {
            0 => EnabledStatistics::None,
            1 => EnabledStatistics::Chunk,
            _ => EnabledStatistics::Page,
        })
        .build();
    let file = std::fs::File::create(path)?;
    let mut w = ArrowWriter::try_new(file, t.schema(), Some(props)).map_err(io)?;
    // write in row-group sized slices so row groups are exactly as requested
    let mut p = lo;
    while p < hi {
        let q = (p + lay.row_group_rows).min(hi);
        w.write(&t.batch(p, q)).map_err(io)?;
        w.flush().map_err(io)?;
        p = q;
    }
    w.close().map_err(io)?;
    if !lay.empty_row_groups.is_empty() && hi > lo {
        insert_empty_row_groups(path, &lay.empty_row_groups)?;
    }
    Ok(())
}

/// Rewrite `path` with zero-row row groups spliced in (see `ParquetLayout::empty_row_groups`):
/// the populated row groups are copied chunk for chunk, undecoded.
pub fn insert_empty_row_groups(path: &Path, before: &[usize]) -> std::io::Result<()> {
    use parquet::column::writer::ColumnCloseResult;
    use parquet::file::reader::{FileReader, SerializedFileReader};
    use parquet::file::writer::SerializedFileWriter;
    let src = std::fs::File::open(path)?;
    let reader = SerializedFileReader::new(src.try_clone()?).map_err(io)?;
    let md = reader.metadata();
    let schema = md.file_metadata().schema_descr().root_schema_ptr();
    // the copied chunks carry no page indexes, so the (page-less) empty ones must not either
    let props = std::sync::Arc::new(WriterProperties::builder().set_offset_index_disabled(true).set_statistics_enabled(EnabledStatistics::None).build());
    let tmp = path.with_extension("with-empties");
    let mut w = SerializedFileWriter::new(std::fs::File::create(&tmp)?, schema, props).map_err(io)?;
    if let Some(kv) = md.file_metadata().key_value_metadata() {
        for e in kv {
            w.append_key_value_metadata(e.clone());
        }
    }
    let n = md.num_row_groups();
    for i in 0..=n {
        for b in before {
            if *b == i || (i == n && *b > n) {
                let mut rg = w.next_row_group().map_err(io)?;
                while let Some(col) = rg.next_column().map_err(io)? {
                    col.close().map_err(io)?;
                }
                rg.close().map_err(io)?;
            }
        }
        if i < n {
            let rgm = md.row_group(i);
            let mut rg = w.next_row_group().map_err(io)?;
            for c in rgm.columns() {
                let close = ColumnCloseResult {
                    bytes_written: c.compressed_size() as u64,
                    rows_written: rgm.num_rows() as u64,
                    metadata: c.clone(),
                    bloom_filter: None,
                    column_index: None,
                    offset_index: None,
                };
                rg.append_column(&src, close).map_err(io)?;
            }
            rg.close().map_err(io)?;
        }
    }
    w.close().map_err(io)?;
    std::fs::rename(&tmp, path)
}

fn io<E: std::fmt::Display>(e: E) -> std::io::Error {
    std::io::Error::new(std::io::ErrorKind::Other, e.to_string())
}
