pub mod canon;
pub mod datagen;
pub mod planfeat;
pub mod report;
pub mod rng;
pub mod sqlgen;
