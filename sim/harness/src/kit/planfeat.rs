//! Features of a statement's optimized plan, used to key known findings narrowly: a
//! listed defect matches only when the rewrite it lives in actually fired.

use query_engine::ExecutionContext;

pub fn plan_features(ctx: &ExecutionContext, sql: &str) -> Vec<String> {
    let mut f = Vec::new();
    if let Ok(p) = ctx.optimized_plan(sql) {
        let txt = format!("{p}");
        // GroupKeyReduction: dependent group columns carried as ANY_VALUE(..) AS __fd_n
        if txt.contains("__fd_") {
            f.push("opt:fd_group_key_reduction".to_string());
        }
        if txt.contains("__pk") {
            f.push("opt:packed_group_keys".to_string());
        }
    }
    f
}
