//! Run records, the parallel driver, replay files, known findings and evidence.

use serde_json::{json, Map, Value};
use std::collections::{BTreeMap, BTreeSet};
use std::io::{BufRead, BufReader, Write};
use std::path::{Path, PathBuf};
use std::process::{Command, Stdio};
use std::time::Instant;

pub const DEFAULT_SEED: u64 = 20260921;

pub fn verif_root() -> PathBuf {
    std::env::var("VERIF_ROOT").map(PathBuf::from).unwrap_or_else(|_| PathBuf::from("/verif"))
}

pub fn scratch_root() -> PathBuf {
    let base = std::env::var("VERIF_SCRATCH").unwrap_or_else(|_| "/var/tmp".into());
    PathBuf::from(base).join(format!("qe-verif-{}", std::process::id()))
}

#[derive(Clone, Debug)]
pub struct Violation {
    pub clause: String,
    pub symptom: String,
    pub features: Vec<String>,
    pub detail: String,
    /// overrides that reproduce this violation when passed back to the engine's run()
    pub overrides: Value,
    /// anything that helps a human: SQL, expected/observed samples, trace
    pub context: Value,
}

impl Violation {
    pub fn to_json(&self) -> Value {
        json!({"clause": self.clause, "symptom": self.symptom, "features": self.features,
               "detail": self.detail, "overrides": self.overrides, "context": self.context})
    }
    pub fn from_json(v: &Value) -> Violation {
        Violation {
            clause: v["clause"].as_str().unwrap_or("").to_string(),
            symptom: v["symptom"].as_str().unwrap_or("").to_string(),
            features: v["features"].as_array().map(|a| a.iter().filter_map(|x| x.as_str().map(String::from)).collect()).unwrap_or_default(),
            detail: v["detail"].as_str().unwrap_or("").to_string(),
            overrides: v["overrides"].clone(),
            context: v["context"].clone(),
        }
    }
    pub fn same_class(&self, o: &Violation) -> bool {
        self.clause == o.clause && self.symptom == o.symptom
    }
}

/// What one simulated run reports.
#[derive(Clone, Debug, Default)]
pub struct RunOut {
    /// hash of the complete event log of the run (operations, deliveries, faults, result
    /// digests, simulated timestamps) — must be identical when the run is repeated
    pub log_hash: u64,
    /// hashes of the distinct non-trivial cases this run explored (event-kind sequence |
    /// plan x world | schedule trace), by the engine's stated rule
    pub case_hashes: Vec<u64>,
    /// counters: "fault.<kind>.armed|fired", "probe.<name>", "n.<name>"
    pub counters: BTreeMap<String, u64>,
    pub sim_ms: u64,
    pub violations: Vec<Violation>,
    pub sample: Option<Value>,
}

impl RunOut {
    pub fn bump(&mut self, k: &str) {
        *self.counters.entry(k.to_string()).or_insert(0) += 1;
    }
    pub fn add(&mut self, k: &str, n: u64) {
        *self.counters.entry(k.to_string()).or_insert(0) += n;
    }
    pub fn to_json(&self, run: u64, seed: u64) -> Value {
        json!({"run": run, "seed": seed, "log_hash": self.log_hash, "cases": self.case_hashes,
               "counters": self.counters, "sim_ms": self.sim_ms,
               "violations": self.violations.iter().map(|v| v.to_json()).collect::<Vec<_>>(),
               "sample": self.sample})
    }
}

#[derive(Clone, Copy, Debug, PartialEq, Eq)]
pub enum Tier {
    Quick,
    Thorough,
}
impl Tier {
    pub fn parse(s: &str) -> Tier {
        if s == "thorough" {
            Tier::Thorough
        } else {
            Tier::Quick
        }
    }
    pub fn name(&self) -> &'static str {
        match self {
            Tier::Quick => "quick",
            Tier::Thorough => "thorough",
        }
    }
}

/// Static description of a check, supplied by the engine.
pub struct CheckSpec {
    pub prop: &'static str,
    pub engine: &'static str,
    pub level: &'static str,
    pub rule: &'static str,
    pub runs_quick: u64,
    pub runs_thorough: u64,
    /// wall-clock cap (seconds) after which workers stop starting new runs
    pub secs_quick: u64,
    pub secs_thorough: u64,
    pub gate_runs: u64,
    pub real: &'static [&'static str],
    pub stub: &'static [&'static str],
    pub assumptions: &'static [&'static str],
    /// probes the thorough tier is expected to reach (reported when stuck at zero)
    pub expected_probes: &'static [&'static str],
}

pub type RunFn = fn(prop: &str, tier: Tier, run_seed: u64, overrides: &Value) -> RunOut;

pub fn run_seed(verif_seed: u64, prop: &str, idx: u64) -> u64 {
    super::rng::mix(&[verif_seed, super::rng::fnv(prop.as_bytes()), idx])
}

fn jobs() -> usize {
    std::env::var("VERIF_JOBS").ok().and_then(|s| s.parse().ok()).unwrap_or(16)
}

/// Worker side: execute runs start, start+step, ... (count of them at most, until the
/// deadline), printing one JSON line per run.
/// Announce what the run is about to do (flushed immediately).  If the process dies
/// before the run reports, the parent attaches the last note to the abort it records.
pub fn note(features: &[String], detail: &str) {
    let out = std::io::stdout();
    let mut lock = out.lock();
    let _ = writeln!(lock, "NOTE {}", json!({"features": features, "detail": detail}));
    let _ = lock.flush();
}

pub type CandFn = fn(&Value, &Violation) -> Vec<Value>;

pub fn worker_main(spec: &CheckSpec, run: RunFn, cands: CandFn, tier: Tier, seed: u64, start: u64, step: u64, count: u64, secs: u64) {
    let gate = std::env::var("QESIM_GATE").map(|v| v == "1").unwrap_or(false);
    let mut shrunk = 0;
    let t0 = Instant::now();
    let out = std::io::stdout();
    let mut i = start;
    let mut done = 0;
    while done < count {
        if t0.elapsed().as_secs() >= secs && done > 0 {
            break;
        }
        let rs = run_seed(seed, spec.prop, i);
        {
            let mut lock = out.lock();
            let _ = writeln!(lock, "BEGIN {} {}", i, rs);
            let _ = lock.flush();
        }
        let mut r = run(spec.prop, tier, rs, &Value::Null);
        if !gate && !r.violations.is_empty() && shrunk < 6 {
            // minimise before reporting (bounded), keeping one violation per class
            let mut seen: Vec<Violation> = Vec::new();
            for v in std::mem::take(&mut r.violations) {
                if seen.iter().any(|s| s.same_class(&v) && s.features == v.features) {
                    continue;
                }
                shrunk += 1;
                let small = shrink(spec.prop, tier, run, rs, v, &cands, 40);
                seen.push(small);
            }
            r.violations = seen;
        }
        let mut lock = out.lock();
        let _ = writeln!(lock, "RUN {}", r.to_json(i, rs));
        let _ = lock.flush();
        i += step;
        done += 1;
    }
    let mut lock = out.lock();
    let _ = writeln!(lock, "DONE {}", done);
}

struct Merged {
    runs: u64,
    sim_ms: u64,
    counters: BTreeMap<String, u64>,
    cases: BTreeSet<u64>,
    log_hashes: BTreeMap<u64, u64>,
    violations: Vec<(u64, u64, Violation)>,
    samples: Vec<Value>,
}

struct WorkerResult {
    lines: Vec<Value>,
    done: bool,
    ok: bool,
    status: String,
    errtail: Vec<String>,
    /// (run index, run seed, last NOTE) of a run that began and never reported
    pending: Option<(u64, u64, Option<Value>)>,
    /// the watchdog killed the worker because a run exceeded the wall-clock limit
    abandoned: bool,
}

fn run_worker(exe: &Path, prop: &str, tier: Tier, seed: u64, start: u64, step: u64, count: u64, secs: u64, gate: bool) -> Result<WorkerResult, String> {
    let mut child = Command::new(exe)
        .args(["worker", prop, tier.name(), &seed.to_string(), &start.to_string(), &step.to_string(), &count.to_string(), &secs.to_string()])
        .env("QESIM_GATE", if gate { "1" } else { "0" })
        // the process-global rayon pool differs per worker process (only worlds that
        // deliberately use the global pool see it; deterministic worlds install their own)
        .env("RAYON_NUM_THREADS", [2usize, 3, 4, 6, 8, 16][(start % 6) as usize].to_string())
        .stdout(Stdio::piped())
        .stderr(Stdio::piped())
        .spawn()
        .map_err(|e| format!("cannot spawn worker: {e}"))?;
    let stdout = child.stdout.take().unwrap();
    let stderr = child.stderr.take().unwrap();
    let eh = std::thread::spawn(move || {
        let mut tail: Vec<String> = Vec::new();
        for l in BufReader::new(stderr).lines().map_while(Result::ok) {
            tail.push(l);
            if tail.len() > 30 {
                tail.remove(0);
            }
        }
        tail
    });
    let mut lines = Vec::new();
    let mut done = false;
    let mut pending: Option<(u64, u64, Option<Value>)> = None;
    // watchdog: a run that produces no line for a long wall-clock time (a pathological
    // world, a deadlock of the harness) is abandoned, never turned into a verdict
    let last = std::sync::Arc::new(std::sync::Mutex::new(Instant::now()));
    let finished = std::sync::Arc::new(std::sync::atomic::AtomicBool::new(false));
    let killed = std::sync::Arc::new(std::sync::atomic::AtomicBool::new(false));
    {
        let (last, finished, killed) = (last.clone(), finished.clone(), killed.clone());
        let pid = child.id() as i32;
        let limit = std::env::var("VERIF_RUN_WATCHDOG_S").ok().and_then(|s| s.parse().ok()).unwrap_or(300u64);
        std::thread::spawn(move || loop {
            std::thread::sleep(std::time::Duration::from_secs(2));
            if finished.load(std::sync::atomic::Ordering::SeqCst) {
                return;
            }
            if last.lock().unwrap().elapsed().as_secs() > limit {
                killed.store(true, std::sync::atomic::Ordering::SeqCst);
                unsafe {
                    libc::kill(pid, libc::SIGKILL);
                }
                return;
            }
        });
    }
    for l in BufReader::new(stdout).lines().map_while(Result::ok) {
        *last.lock().unwrap() = Instant::now();
        if let Some(rest) = l.strip_prefix("RUN ") {
            if let Ok(v) = serde_json::from_str::<Value>(rest) {
                lines.push(v);
            }
            pending = None;
        } else if let Some(rest) = l.strip_prefix("BEGIN ") {
            let mut it = rest.split_whitespace();
            let i = it.next().and_then(|x| x.parse().ok()).unwrap_or(0);
            let rs = it.next().and_then(|x| x.parse().ok()).unwrap_or(0);
            pending = Some((i, rs, None));
        } else if let Some(rest) = l.strip_prefix("NOTE ") {
            if let Some(p) = pending.as_mut() {
                p.2 = serde_json::from_str::<Value>(rest).ok();
            }
        } else if l.starts_with("DONE ") {
            done = true;
        }
    }
    let status = child.wait();
    finished.store(true, std::sync::atomic::Ordering::SeqCst);
    let ok = status.as_ref().map(|s| s.success()).unwrap_or(false);
    let abandoned = killed.load(std::sync::atomic::Ordering::SeqCst);
    Ok(WorkerResult { lines, done, ok, status: format!("{status:?}"), errtail: eh.join().unwrap_or_default(), pending, abandoned })
}

fn spawn_workers(prop: &str, tier: Tier, seed: u64, total: u64, njobs: usize, secs: u64, gate: bool) -> Result<Merged, String> {
    let exe = std::env::current_exe().map_err(|e| e.to_string())?;
    let njobs = njobs.max(1).min(total.max(1) as usize);
    let mut handles = Vec::new();
    for j in 0..njobs {
        let count = (total + njobs as u64 - 1 - j as u64) / njobs as u64;
        if count == 0 {
            continue;
        }
        let exe = exe.clone();
        let prop = prop.to_string();
        handles.push(std::thread::spawn(move || -> Result<(Vec<Value>, Vec<(u64, u64, Violation)>), String> {
            // A worker that dies (abort, stack overflow, kill) inside a run is not a harness
            // error: the death is attributed to that run as a violation and the remaining
            // runs continue in a fresh process.
            let mut all_lines = Vec::new();
            let mut deaths = Vec::new();
            let mut start = j as u64;
            let mut left = count;
            let step = njobs as u64;
            let mut respawns = 0;
            while left > 0 {
                let r = run_worker(&exe, &prop, tier, seed, start, step, left, secs, gate)?;
                let got = r.lines.len() as u64;
                all_lines.extend(r.lines);
                if r.ok && r.done {
                    break;
                }
                match r.pending {
                    Some((i, _rs, _)) if r.abandoned && respawns < 40 => {
                        respawns += 1;
                        println!("warning: run {i} exceeded the wall-clock watchdog and was abandoned (no verdict)");
                        start = i + step;
                        left = left.saturating_sub(got + 1);
                    }
                    Some((i, rs, note)) if respawns < 40 => {
                        respawns += 1;
                        let mut features: Vec<String> = note.as_ref().and_then(|n| n["features"].as_array().map(|a| a.iter().filter_map(|x| x.as_str().map(String::from)).collect())).unwrap_or_default();
                        features.push("process-died".to_string());
                        let detail = format!("the process executing run {i} died ({}); last note: {}; stderr: {}", r.status, note.as_ref().map(|n| n["detail"].as_str().unwrap_or("").to_string()).unwrap_or_default(), r.errtail.last().cloned().unwrap_or_default());
                        deaths.push((i, rs, Violation { clause: "no-process-death".into(), symptom: "process-died".into(), features, detail, overrides: json!({}), context: json!({"status": r.status, "stderr_tail": r.errtail}) }));
                        // continue after the fatal run
                        let consumed = got + 1;
                        start = i + step;
                        left = left.saturating_sub(consumed);
                    }
                    _ => {
                        return Err(format!("worker {j} ended abnormally ({}) after {} runs with no run in progress; stderr tail:\n{}", r.status, got, r.errtail.join("\n")));
                    }
                }
            }
            Ok((all_lines, deaths))
        }));
    }
    let mut m = Merged { runs: 0, sim_ms: 0, counters: BTreeMap::new(), cases: BTreeSet::new(), log_hashes: BTreeMap::new(), violations: Vec::new(), samples: Vec::new() };
    for h in handles {
        let (lines, deaths) = h.join().map_err(|_| "worker reader panicked".to_string())??;
        for d in deaths {
            m.runs += 1;
            *m.counters.entry("n.process_deaths".into()).or_insert(0) += 1;
            m.violations.push(d);
        }
        for v in lines {
            m.runs += 1;
            m.sim_ms += v["sim_ms"].as_u64().unwrap_or(0);
            let run = v["run"].as_u64().unwrap_or(0);
            let rs = v["seed"].as_u64().unwrap_or(0);
            m.log_hashes.insert(run, v["log_hash"].as_u64().unwrap_or(0));
            if let Some(c) = v["counters"].as_object() {
                for (k, n) in c {
                    *m.counters.entry(k.clone()).or_insert(0) += n.as_u64().unwrap_or(0);
                }
            }
            if let Some(cs) = v["cases"].as_array() {
                for c in cs {
                    if let Some(x) = c.as_u64() {
                        m.cases.insert(x);
                    }
                }
            }
            if let Some(vs) = v["violations"].as_array() {
                for x in vs {
                    m.violations.push((run, rs, Violation::from_json(x)));
                }
            }
            if !v["sample"].is_null() && m.samples.len() < 3 {
                m.samples.push(v["sample"].clone());
            }
        }
    }
    Ok(m)
}

#[derive(Clone, Debug)]
pub struct KnownFinding {
    pub property: String,
    pub clause: String,
    pub symptom: String,
    pub features: Vec<String>,
    pub what: String,
}

pub fn load_known_findings() -> Vec<KnownFinding> {
    let p = verif_root().join("known_findings.json");
    let Ok(txt) = std::fs::read_to_string(&p) else { return vec![] };
    let Ok(v) = serde_json::from_str::<Value>(&txt) else { return vec![] };
    let mut out = Vec::new();
    for e in v["findings"].as_array().cloned().unwrap_or_default() {
        if e["fixed"].as_bool().unwrap_or(false) {
            continue; // fixed entries suppress nothing
        }
        out.push(KnownFinding {
            property: e["property"].as_str().unwrap_or("").into(),
            clause: e["clause"].as_str().unwrap_or("").into(),
            symptom: e["symptom"].as_str().unwrap_or("").into(),
            features: e["features"].as_array().map(|a| a.iter().filter_map(|x| x.as_str().map(String::from)).collect()).unwrap_or_default(),
            what: e["what"].as_str().unwrap_or("").into(),
        });
    }
    out
}

pub fn matches_known<'a>(prop: &str, v: &Violation, known: &'a [KnownFinding]) -> Option<&'a KnownFinding> {
    known.iter().find(|k| {
        k.property == prop && k.clause == v.clause && k.symptom == v.symptom && k.features.iter().all(|f| v.features.contains(f))
    })
}

pub fn write_replay(spec: &CheckSpec, tier: Tier, verif_seed: u64, run_seed: u64, v: &Violation, n: usize) -> PathBuf {
    let dir = verif_root().join("replays");
    let _ = std::fs::create_dir_all(&dir);
    let path = dir.join(format!("{}-{:016x}-{}.json", spec.prop, run_seed, n));
    let doc = json!({
        "v": 1, "property": spec.prop, "engine": spec.engine, "tier": tier.name(),
        "verif_seed": verif_seed, "run_seed": run_seed,
        "overrides": v.overrides, "oracle": v.clause,
        "signature": {"symptom": v.symptom, "features": v.features},
        "detail": v.detail, "context": v.context, "replay_mode": "exact",
    });
    let _ = std::fs::write(&path, serde_json::to_vec_pretty(&doc).unwrap());
    path
}

/// Replay a file in this process: exit code 1 and a VIOLATION line when the same
/// violation class reproduces, 0 when the run is clean, 2 otherwise.
pub fn replay_main(spec: &CheckSpec, run: RunFn, path: &Path) -> i32 {
    let Ok(txt) = std::fs::read_to_string(path) else {
        eprintln!("cannot read {}", path.display());
        return 2;
    };
    let Ok(doc) = serde_json::from_str::<Value>(&txt) else {
        eprintln!("replay file is not JSON");
        return 2;
    };
    let rs = doc["run_seed"].as_u64().unwrap_or(0);
    let tier = Tier::parse(doc["tier"].as_str().unwrap_or("quick"));
    let out = run(spec.prop, tier, rs, &doc["overrides"]);
    let want_clause = doc["oracle"].as_str().unwrap_or("");
    let want_symptom = doc["signature"]["symptom"].as_str().unwrap_or("");
    for v in &out.violations {
        if v.clause == want_clause && v.symptom == want_symptom {
            println!("REPRODUCED clause={} symptom={} detail={}", v.clause, v.symptom, v.detail);
            println!("features={:?}", v.features);
            println!("VIOLATION property={} replay={}", spec.prop, path.display());
            return 1;
        }
    }
    if let Some(v) = out.violations.first() {
        println!("replay produced a different violation: clause={} symptom={}", v.clause, v.symptom);
        return 2;
    }
    println!("replay clean: no violation");
    0
}

/// Greedy shrink: `candidates(overrides)` proposes simpler overrides; keep a candidate
/// when the same violation class persists.  Bounded by `budget` re-executions.
pub fn shrink(
    prop: &str,
    tier: Tier,
    run: RunFn,
    run_seed: u64,
    v: Violation,
    candidates: &dyn Fn(&Value, &Violation) -> Vec<Value>,
    budget: usize,
) -> Violation {
    let mut best = v;
    let mut spent = 0;
    loop {
        let mut improved = false;
        for cand in candidates(&best.overrides, &best) {
            if spent >= budget {
                return best;
            }
            spent += 1;
            let out = run(prop, tier, run_seed, &cand);
            if let Some(nv) = out.violations.into_iter().find(|x| x.same_class(&best)) {
                best = nv;
                improved = true;
                break;
            }
        }
        if !improved {
            return best;
        }
    }
}

/// Parent side of a check.  Returns the process exit code.
pub fn check_main(spec: &CheckSpec, tier: Tier) -> i32 {
    let t0 = Instant::now();
    let seed: u64 = std::env::var("VERIF_SEED").ok().and_then(|s| s.parse().ok()).unwrap_or(DEFAULT_SEED);
    println!("check {} tier={} VERIF_SEED={}", spec.prop, tier.name(), seed);
    let (total, secs) = match tier {
        Tier::Quick => (spec.runs_quick, spec.secs_quick),
        Tier::Thorough => (spec.runs_thorough, spec.secs_thorough),
    };
    let total = std::env::var("VERIF_RUNS").ok().and_then(|s| s.parse().ok()).unwrap_or(total);
    let main = match spawn_workers(spec.prop, tier, seed, total, jobs(), secs, false) {
        Ok(m) => m,
        Err(e) => {
            println!("HARNESS-ERROR {e}");
            return 2;
        }
    };
    // Determinism gate: repeat the first runs in a different process layout and compare
    // the complete event-log hashes.
    let gate_n = spec.gate_runs.min(main.runs);
    let mut gate_identical = 0u64;
    if gate_n > 0 {
        let gj = (jobs() / 2).max(1) + 1;
        match spawn_workers(spec.prop, tier, seed, gate_n, gj, secs, true) {
            Ok(g) => {
                let dirty: BTreeSet<u64> = main.violations.iter().map(|v| v.0).chain(g.violations.iter().map(|v| v.0)).collect();
                for (run, h) in &g.log_hashes {
                    // a run that reported a violation is already an alarm (or a listed
                    // finding); wrong answers may legitimately depend on per-process hash
                    // seeds, so only clean runs are required to repeat bit for bit
                    if dirty.contains(run) {
                        continue;
                    }
                    match main.log_hashes.get(run) {
                        Some(h0) if h0 == h => gate_identical += 1,
                        Some(h0) => {
                            println!("HARNESS-ERROR determinism gate: run {run} log hash {h0:#x} vs {h:#x} on repeat");
                            return 2;
                        }
                        None => {}
                    }
                }
            }
            Err(e) => {
                println!("HARNESS-ERROR gate: {e}");
                return 2;
            }
        }
    }

    // violations -> replay files, known-finding matching
    let known = load_known_findings();
    let mut known_hits: BTreeMap<String, u64> = BTreeMap::new();
    let mut new_violations = 0;
    let mut printed = 0;
    let mut unreproduced = 0;
    {
        let mut groups: BTreeMap<String, (u64, String)> = BTreeMap::new();
        for (_r, _s, v) in &main.violations {
            let k = format!("{} | {} | {:?}", v.clause, v.symptom, v.features);
            let e = groups.entry(k).or_insert((0, v.detail.clone()));
            e.0 += 1;
        }
        for (k, (n, d)) in &groups {
            println!("  group x{n}: {k}\n      e.g. {}", d.chars().take(400).collect::<String>());
        }
    }
    let mut seen_groups: BTreeSet<String> = BTreeSet::new();
    for (n, (_run, rs, v)) in main.violations.iter().enumerate() {
        if let Some(k) = matches_known(spec.prop, v, &known) {
            let first = !known_hits.contains_key(&k.what);
            *known_hits.entry(k.what.clone()).or_insert(0) += 1;
            if (first || std::env::var("VERIF_KEEP_KNOWN").map(|x| x == "all").unwrap_or(false)) && std::env::var("VERIF_KEEP_KNOWN").is_ok() {
                let p = write_replay(spec, tier, seed, *rs, v, 9000 + n);
                println!("  (known finding instance kept as {})", p.display());
            }
            continue;
        }
        new_violations += 1;
        // one replay file per distinct (clause, symptom, features) group
        let gk = format!("{}|{}|{:?}", v.clause, v.symptom, v.features);
        if !seen_groups.insert(gk) || printed >= 16 {
            continue;
        }
        let path = write_replay(spec, tier, seed, *rs, v, n);
        println!("  clause={} symptom={} features={:?}\n  {}", v.clause, v.symptom, v.features, v.detail);
        // the minimised file must reproduce in a fresh process, otherwise it is
        // reported as unreproduced, never as a verdict
        let exe = std::env::current_exe().unwrap();
        let mut st = Command::new(&exe).args(["replay", spec.prop, path.to_str().unwrap()]).stdout(Stdio::null()).stderr(Stdio::null()).status();
        // wrong answers that depend on per-process hash seeds reproduce statistically:
        // retry a clean replay a few times before calling it unreproduced
        let mut attempts = 1;
        while attempts < 6 && matches!(st.as_ref().map(|s| s.code()), Ok(Some(0))) {
            st = Command::new(&exe).args(["replay", spec.prop, path.to_str().unwrap()]).stdout(Stdio::null()).stderr(Stdio::null()).status();
            attempts += 1;
        }
        if attempts > 1 {
            println!("  (replay needed {attempts} attempts: statistical reproduction)");
        }
        match st.map(|s| s.code()) {
            Ok(Some(1)) => {}
            // the replay process itself died: that IS the reproduction of a process death
            Ok(None) if v.symptom == "process-died" => {}
            Ok(Some(c)) if v.symptom == "process-died" && c != 0 && c != 2 => {}
            other => {
                println!("warning: replay of {} did not reproduce in a fresh process ({:?}); counted as unreproduced", path.display(), other);
                unreproduced += 1;
                new_violations -= 1;
                continue;
            }
        }
        println!("VIOLATION property={} replay={}", spec.prop, path.display());
        printed += 1;
    }
    for (what, n) in &known_hits {
        println!("KNOWN-FINDING: property={} {} (matched {} times)", spec.prop, what, n);
    }

    // evidence
    let wall = t0.elapsed().as_secs_f64();
    let mut faults: BTreeMap<String, Map<String, Value>> = BTreeMap::new();
    let mut probes = Map::new();
    let mut stats = Map::new();
    for (k, n) in &main.counters {
        if let Some(rest) = k.strip_prefix("fault.") {
            if let Some((kind, what)) = rest.rsplit_once('.') {
                faults.entry(kind.to_string()).or_default().insert(what.to_string(), json!(n));
            }
        } else if let Some(p) = k.strip_prefix("probe.") {
            probes.insert(p.to_string(), json!(n));
        } else {
            stats.insert(k.clone(), json!(n));
        }
    }
    let unreached: Vec<&str> = spec.expected_probes.iter().cloned().filter(|p| !probes.contains_key(*p)).collect();
    if !unreached.is_empty() {
        println!("warning: probes not reached in this run: {:?}", unreached);
    }
    let distinct = main.cases.len() as u64;
    let ev = json!({
        "property_id": spec.prop,
        "tier": tier.name(),
        "seed": seed,
        "level": spec.level,
        "wall_s": wall,
        "violations": new_violations,
        "assumptions": spec.assumptions,
        "coverage": {
            "evaluations": main.runs,
            "distinct_nontrivial": distinct,
            "rule": spec.rule,
            "samples": main.samples,
            "runs_per_hour": if wall > 0.0 { (main.runs as f64 / wall * 3600.0) as u64 } else { 0 },
            "simulated_seconds": main.sim_ms as f64 / 1000.0,
            "faults": faults,
            "probes": probes,
            "probes_unreached": unreached,
            "stats": stats,
            "components": {"real": spec.real, "stub": spec.stub},
            "known_findings_matched": known_hits,
            "unreproduced_divergences": unreproduced,
            "determinism_gate": {"runs_repeated": gate_n, "identical": gate_identical},
        }
    });
    let evdir = verif_root().join("evidence");
    let _ = std::fs::create_dir_all(&evdir);
    let _ = std::fs::write(evdir.join(format!("{}.json", spec.prop)), serde_json::to_vec_pretty(&ev).unwrap());
    println!(
        "{}: {} runs, {} distinct non-trivial cases, {:.1}s simulated, {:.1}s wall, {} violations ({} known-finding matches), gate {}/{}",
        spec.prop,
        main.runs,
        distinct,
        main.sim_ms as f64 / 1000.0,
        wall,
        new_violations,
        known_hits.values().sum::<u64>(),
        gate_identical,
        gate_n
    );
    if new_violations > 0 {
        1
    } else {
        0
    }
}
