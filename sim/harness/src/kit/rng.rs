//! The one PRNG of the harness: SplitMix64 seeding xoshiro256**.  No other source of
//! randomness is used by any simulator (no thread_rng, no RandomState in harness state).

#[derive(Clone, Debug)]
pub struct Rng {
    s: [u64; 4],
}

pub fn splitmix(x: &mut u64) -> u64 {
    *x = x.wrapping_add(0x9E3779B97F4A7C15);
    let mut z = *x;
    z = (z ^ (z >> 30)).wrapping_mul(0xBF58476D1CE4E5B9);
    z = (z ^ (z >> 27)).wrapping_mul(0x94D049BB133111EB);
    z ^ (z >> 31)
}

/// Mix several integers into one seed (run seed = mix(VERIF_SEED, engine id, run index)).
pub fn mix(parts: &[u64]) -> u64 {
    let mut h: u64 = 0x243F6A8885A308D3;
    for p in parts {
        let mut x = h ^ p.wrapping_mul(0x9E3779B97F4A7C15);
        h = splitmix(&mut x);
    }
    h
}

impl Rng {
    pub fn new(seed: u64) -> Self {
        let mut x = seed;
        let s = [splitmix(&mut x), splitmix(&mut x), splitmix(&mut x), splitmix(&mut x)];
        Rng { s }
    }
    /// Independent stream derived from this seed and a label (so adding draws to one
    /// part of a generator does not shift every other part).
    pub fn fork(&self, label: u64) -> Rng {
        Rng::new(mix(&[self.s[0], self.s[1], self.s[2], self.s[3], label]))
    }
    pub fn next_u64(&mut self) -> u64 {
        let r = self.s[1].wrapping_mul(5).rotate_left(7).wrapping_mul(9);
        let t = self.s[1] << 17;
        self.s[2] ^= self.s[0];
        self.s[3] ^= self.s[1];
        self.s[1] ^= self.s[2];
        self.s[0] ^= self.s[3];
        self.s[2] ^= t;
        self.s[3] = self.s[3].rotate_left(45);
        r
    }
    /// Uniform in 0..n (n > 0).
    pub fn below(&mut self, n: u64) -> u64 {
        debug_assert!(n > 0);
        // multiply-shift; bias is irrelevant for simulation purposes
        ((self.next_u64() as u128 * n as u128) >> 64) as u64
    }
    pub fn usize(&mut self, n: usize) -> usize {
        self.below(n as u64) as usize
    }
    /// Uniform in lo..=hi.
    pub fn range(&mut self, lo: i64, hi: i64) -> i64 {
        debug_assert!(hi >= lo);
        lo + self.below((hi - lo) as u64 + 1) as i64
    }
    pub fn chance(&mut self, num: u64, den: u64) -> bool {
        self.below(den) < num
    }
    pub fn coin(&mut self) -> bool {
        self.next_u64() & 1 == 1
    }
    pub fn pick<'a, T>(&mut self, xs: &'a [T]) -> &'a T {
        &xs[self.usize(xs.len())]
    }
    pub fn shuffle<T>(&mut self, xs: &mut [T]) {
        for i in (1..xs.len()).rev() {
            let j = self.usize(i + 1);
            xs.swap(i, j);
        }
    }
    /// Random subset: each element kept with probability num/den.
    pub fn subset<T: Clone>(&mut self, xs: &[T], num: u64, den: u64) -> Vec<T> {
        xs.iter().filter(|_| self.chance(num, den)).cloned().collect()
    }
}

/// FNV-1a, used for log digests and distinct-case counting.
pub fn fnv(bytes: &[u8]) -> u64 {
    let mut h: u64 = 0xcbf29ce484222325;
    for b in bytes {
        h ^= *b as u64;
        h = h.wrapping_mul(0x100000001b3);
    }
    h
}
