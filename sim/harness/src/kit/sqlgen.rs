//! Grammar-directed statement generator.  Statements are chosen for the execution path
//! they reach (merge shape, spill decision, partitioned operator), not for SQL coverage,
//! and only constructs whose answer is a deterministic multiset (and a deterministic
//! sequence of ORDER BY keys) are produced, so a differential can never alarm on a
//! legitimately unspecified order or a rounding difference.

use super::datagen::{ColData, Table, Ty};
use super::rng::Rng;

#[derive(Clone, Debug)]
pub struct Stmt {
    pub sql: String,
    pub family: &'static str,
    /// output column positions that the ORDER BY fixes, in key order
    pub order_keys: Vec<usize>,
    /// names of the tables the statement reads
    pub tables: Vec<String>,
    /// generator-known peculiarities (e.g. "dup_select_items")
    pub features: Vec<String>,
}

#[derive(Clone, Copy, Debug, PartialEq, Eq)]
pub enum Family {
    Filter,
    GlobalAgg,
    GroupAgg,
    TopN,
    Join,
    JoinAgg,
    Subquery,
    Cte,
    SetOp,
    Distinct,
    SelfJoin,
    Window,
    SortAll,
}

pub const SCATTER_FAMILIES: &[Family] =
    &[Family::Filter, Family::GlobalAgg, Family::GroupAgg, Family::TopN, Family::Join, Family::JoinAgg, Family::SortAll];
pub const GATHER_FAMILIES: &[Family] =
    &[Family::Subquery, Family::Cte, Family::SetOp, Family::Distinct, Family::SelfJoin, Family::Window];
pub const ALL_FAMILIES: &[Family] = &[
    Family::Filter,
    Family::GlobalAgg,
    Family::GroupAgg,
    Family::TopN,
    Family::Join,
    Family::JoinAgg,
    Family::Subquery,
    Family::Cte,
    Family::SetOp,
    Family::Distinct,
    Family::SelfJoin,
    Family::Window,
    Family::SortAll,
];

fn has_neg_zero(t: &Table, c: usize) -> bool {
    match &t.data[c] {
        ColData::F64(v) => v.iter().any(|x| matches!(x, Some(f) if *f == 0.0 && f.is_sign_negative())),
        _ => false,
    }
}

fn cols_where<'a>(t: &'a Table, f: impl Fn(Ty) -> bool + 'a) -> Vec<usize> {
    (0..t.cols.len()).filter(|&i| f(t.cols[i].ty)).collect()
}

/// A literal drawn from the column's own data, or a value just outside its range.
fn literal_for(rng: &mut Rng, t: &Table, c: usize) -> String {
    if t.rows > 0 && rng.chance(7, 8) {
        for _ in 0..4 {
            let i = rng.usize(t.rows);
            if let Some(l) = t.data[c].literal(i) {
                return l;
            }
        }
    }
    match t.cols[c].ty {
        Ty::I64 => rng.range(-10, 100).to_string(),
        Ty::I32 => rng.range(-10, 100).to_string(),
        Ty::F64 => format!("{:.1}", rng.range(-100, 100) as f64 / 2.0),
        Ty::Str => "'alpha'".into(),
        Ty::Date => super::datagen::date_literal(8000 + rng.range(0, 4000) as i32),
        Ty::Bool => "TRUE".into(),
    }
}

fn atom(rng: &mut Rng, t: &Table, q: &str) -> String {
    let c = rng.usize(t.cols.len());
    let name = format!("{q}{}", t.cols[c].name);
    let ty = t.cols[c].ty;
    match rng.below(12) {
        0 => format!("{name} IS NULL"),
        1 => format!("{name} IS NOT NULL"),
        2 if ty != Ty::Bool => {
            let (a, b) = (literal_for(rng, t, c), literal_for(rng, t, c));
            format!("{name} BETWEEN {a} AND {b}")
        }
        3 if ty != Ty::Bool => {
            let n = 1 + rng.usize(4);
            let xs: Vec<String> = (0..n).map(|_| literal_for(rng, t, c)).collect();
            format!("{name} {}IN ({})", if rng.chance(1, 4) { "NOT " } else { "" }, xs.join(", "))
        }
        4 if ty == Ty::Str => {
            let pat = *rng.pick(&["al%", "%a", "%et%", "u0%", "_eta", "%"]);
            format!("{name} {}LIKE '{pat}'", if rng.chance(1, 4) { "NOT " } else { "" })
        }
        _ => {
            if ty == Ty::Bool {
                if rng.coin() {
                    name
                } else {
                    format!("{name} = {}", literal_for(rng, t, c))
                }
            } else {
                let op = *rng.pick(&["=", "<>", "<", "<=", ">", ">="]);
                format!("{name} {op} {}", literal_for(rng, t, c))
            }
        }
    }
}

/// Predicate over one table; `q` is the qualifier prefix ("" or "a.").
pub fn predicate(rng: &mut Rng, t: &Table, q: &str, depth: u32) -> String {
    if depth == 0 || rng.chance(1, 2) {
        return atom(rng, t, q);
    }
    match rng.below(5) {
        0 | 1 => format!("({} AND {})", predicate(rng, t, q, depth - 1), predicate(rng, t, q, depth - 1)),
        2 | 3 => format!("({} OR {})", predicate(rng, t, q, depth - 1), predicate(rng, t, q, depth - 1)),
        _ => format!("NOT ({})", predicate(rng, t, q, depth - 1)),
    }
}

fn opt_where(rng: &mut Rng, t: &Table, q: &str) -> String {
    if rng.chance(3, 5) {
        format!(" WHERE {}", predicate(rng, t, q, 2))
    } else {
        String::new()
    }
}

fn agg_item(rng: &mut Rng, t: &Table, q: &str, allow_distinct: bool) -> String {
    let nums = cols_where(t, |ty| ty.is_numeric());
    let any: Vec<usize> = cols_where(t, |ty| ty != Ty::Bool);
    let ints = cols_where(t, |ty| ty.is_int());
    let col = |c: usize| format!("{q}{}", t.cols[c].name);
    // one aggregate in eight is one of the less travelled order-insensitive ones (their
    // partial states take other merge arms); drawn from a forked stream
    let mut rare = rng.fork(0xa66e);
    if rare.chance(1, 8) {
        let bools = cols_where(t, |ty| ty == Ty::Bool);
        match rare.below(3) {
            0 if !bools.is_empty() => return format!("BOOL_AND({})", col(*rare.pick(&bools))),
            1 if !bools.is_empty() => return format!("BOOL_OR({})", col(*rare.pick(&bools))),
            _ => {
                let p = atom(&mut rare, t, q);
                return format!("COUNT_IF({p})");
            }
        }
    }
    match rng.below(if allow_distinct { 11 } else { 10 }) {
        0 | 1 => "COUNT(*)".to_string(),
        2 => format!("COUNT({})", col(rng.usize(t.cols.len()))),
        3 | 4 if !nums.is_empty() => format!("SUM({})", col(*rng.pick(&nums))),
        5 if !any.is_empty() => format!("MIN({})", col(*rng.pick(&any))),
        6 if !any.is_empty() => format!("MAX({})", col(*rng.pick(&any))),
        7 if !nums.is_empty() => format!("AVG({})", col(*rng.pick(&nums))),
        8 if !ints.is_empty() => {
            let c = *rng.pick(&ints);
            format!("SUM({} * 2 + 1)", col(c))
        }
        9 if !ints.is_empty() => {
            let c = *rng.pick(&ints);
            let p = atom(rng, t, q);
            format!("SUM(CASE WHEN {p} THEN {} ELSE 0 END)", col(c))
        }
        10 if !any.is_empty() => format!("COUNT(DISTINCT {})", col(*rng.pick(&any))),
        _ => "COUNT(*)".to_string(),
    }
}

/// "dup_select_items" when two select items compute the same expression (ignoring the
/// alias): the distributed rewriter then emits two merge columns with one output name.
fn dup_feature(items: &[String]) -> Vec<String> {
    let bare: Vec<&str> = items.iter().map(|i| i.split(" AS ").next().unwrap_or(i)).collect();
    for i in 0..bare.len() {
        for j in 0..i {
            if bare[i] == bare[j] {
                return vec!["dup_select_items".to_string()];
            }
        }
    }
    vec![]
}

fn dir(rng: &mut Rng) -> &'static str {
    *rng.pick(&["", " ASC", " DESC", " ASC NULLS FIRST", " DESC NULLS LAST", " DESC NULLS FIRST", " ASC NULLS LAST"])
}

fn limit_clause(rng: &mut Rng, approx_rows: usize) -> String {
    let n = match rng.below(6) {
        0 => 0,
        1 => 1,
        2 => rng.usize(10) + 1,
        3 => approx_rows + rng.usize(5),
        _ => rng.usize(approx_rows.max(1)) + 1,
    };
    let mut s = format!(" LIMIT {n}");
    if rng.chance(1, 3) {
        let m = match rng.below(4) {
            0 => 0,
            1 => approx_rows + 3,
            _ => rng.usize(approx_rows.max(1)),
        };
        s.push_str(&format!(" OFFSET {m}"));
    }
    s
}

fn group_cols(t: &Table) -> Vec<usize> {
    // never group on doubles (−0.0 / 0.0 grouping is engine-defined) nor on the unique id
    (1..t.cols.len()).filter(|&i| t.cols[i].ty != Ty::F64).collect()
}

fn sortable_cols(t: &Table) -> Vec<usize> {
    (0..t.cols.len()).filter(|&i| !(t.cols[i].ty == Ty::F64 && has_neg_zero(t, i))).collect()
}

pub fn gen(rng: &mut Rng, tables: &[Table], fam: Family) -> Option<Stmt> {
    let ti = rng.usize(tables.len());
    let t = &tables[ti];
    let other = if tables.len() > 1 {
        let mut j = rng.usize(tables.len() - 1);
        if j >= ti {
            j += 1;
        }
        Some(&tables[j])
    } else {
        None
    };
    let tn = &t.name;
    match fam {
        Family::Filter => {
            let mut cols: Vec<usize> = (0..t.cols.len()).collect();
            rng.shuffle(&mut cols);
            cols.truncate(1 + rng.usize(t.cols.len()));
            let mut items: Vec<String> = cols.iter().map(|&c| t.cols[c].name.clone()).collect();
            if rng.chance(1, 4) {
                let ints = cols_where(t, |ty| ty.is_int());
                if !ints.is_empty() {
                    let c = *rng.pick(&ints);
                    items.push(format!("{} + 1 AS e1", t.cols[c].name));
                    items.push(format!("CASE WHEN {} > 3 THEN 'hi' ELSE 'lo' END AS e2", t.cols[c].name));
                }
            }
            let star = rng.chance(1, 8);
            let sel = if star { "*".to_string() } else { items.join(", ") };
            let wh = opt_where(rng, t, "");
            // one plain select in six asks for an UNORDERED page: which rows come back is
            // open, how many is not (min(n, max(0, rows - m))), and each must be a row of the
            // un-paged statement; checks compare the count (feature `unordered_page`)
            let mut pg = rng.fork(0x9a6e);
            let (page, features) = if pg.chance(1, 6) {
                let n = 1 + pg.usize(12);
                let m = *pg.pick(&[0usize, 1, 5, 20, 100]) + pg.usize(3);
                (format!(" LIMIT {n} OFFSET {m}"), vec!["unordered_page".to_string()])
            } else {
                (String::new(), vec![])
            };
            Some(Stmt {
                sql: format!("SELECT {sel} FROM {tn}{wh}{page}"),
                family: "filter",
                order_keys: vec![],
                tables: vec![tn.clone()],
                features,
            })
        }
        Family::GlobalAgg => {
            let n = 1 + rng.usize(4);
            let items: Vec<String> = (0..n)
                .map(|i| {
                    let a = agg_item(rng, t, "", false);
                    if rng.coin() {
                        format!("{a} AS a{i}")
                    } else {
                        a
                    }
                })
                .collect();
            let features = dup_feature(&items);
            Some(Stmt {
                sql: format!("SELECT {} FROM {tn}{}", items.join(", "), opt_where(rng, t, "")),
                family: "global_agg",
                order_keys: vec![],
                tables: vec![tn.clone()],
                features,
            })
        }
        Family::GroupAgg => {
            let gc = group_cols(t);
            if gc.is_empty() {
                return None;
            }
            let mut g = gc.clone();
            rng.shuffle(&mut g);
            g.truncate(1 + rng.usize(2.min(g.len())));
            // one grouped statement in five names everything through a table alias
            // (`SELECT a.k, .. FROM t a GROUP BY a.k ORDER BY a.k`): the output column is still
            // `k`, the sort key is a qualified expression
            let q = if rng.fork(0x9a1).chance(1, 5) { "a." } else { "" };
            let from_name = if q.is_empty() { tn.clone() } else { format!("{tn} a") };
            let gnames: Vec<String> = g.iter().map(|&c| format!("{q}{}", t.cols[c].name)).collect();
            let n = 1 + rng.usize(3);
            let mut items = gnames.clone();
            let mut aggs = Vec::new();
            for i in 0..n {
                let a = agg_item(rng, t, q, false);
                aggs.push(a.clone());
                items.push(if rng.coin() { format!("{a} AS a{i}") } else { a });
            }
            let wh = opt_where(rng, t, q);
            // HAVING forms whose verdict is scattered over the groups in key order (a group that
            // fails may sort ahead of one that passes), drawn from a forked stream
            let mut hr = rng.fork(0x4a71);
            let scattered = |hr: &mut Rng| match hr.below(3) {
                0 => format!(" HAVING MIN({q}id) % 3 = 0"),
                1 => format!(" HAVING SUM({q}id) % 2 = 1"),
                _ => format!(" HAVING MAX({q}id) % 4 < 2 AND COUNT(*) > 0"),
            };
            let having = if rng.chance(1, 4) {
                let c = rng.usize(4);
                if hr.coin() {
                    scattered(&mut hr)
                } else {
                    format!(" HAVING COUNT(*) > {c}")
                }
            } else {
                String::new()
            };
            let mut sql = format!(
                "SELECT {} FROM {from_name}{wh} GROUP BY {}{having}",
                items.join(", "),
                gnames.join(", ")
            );
            let mut order_keys = vec![];
            if rng.chance(1, 2) {
                // total order over the groups: all group keys
                let keys: Vec<String> = gnames.iter().map(|g| format!("{g}{}", dir(rng))).collect();
                sql.push_str(&format!(" ORDER BY {}", keys.join(", ")));
                order_keys = (0..gnames.len()).collect();
                if rng.chance(1, 2) {
                    sql.push_str(&limit_clause(rng, 12));
                    // a page of the groups that survive HAVING
                    if having.is_empty() && hr.chance(1, 3) {
                        let h = scattered(&mut hr);
                        sql = sql.replacen(" ORDER BY ", &format!("{h} ORDER BY "), 1);
                    }
                }
            }
            let mut features = dup_feature(&items);
            if !q.is_empty() {
                features.push("qualified_group_keys".to_string());
            }
            Some(Stmt { sql, family: "group_agg", order_keys, tables: vec![tn.clone()], features })
        }
        Family::TopN | Family::SortAll => {
            let sc = sortable_cols(t);
            let mut keys: Vec<usize> = sc.iter().cloned().filter(|&c| c != 0).collect();
            rng.shuffle(&mut keys);
            keys.truncate(rng.usize(3));
            keys.push(0); // id last: total order
            let mut sel: Vec<usize> = keys.clone();
            for c in 0..t.cols.len() {
                if !sel.contains(&c) && rng.coin() {
                    sel.push(c);
                }
            }
            let items: Vec<String> = sel.iter().map(|&c| t.cols[c].name.clone()).collect();
            let ob: Vec<String> = keys.iter().map(|&c| format!("{}{}", t.cols[c].name, dir(rng))).collect();
            let lim = if fam == Family::TopN { limit_clause(rng, t.rows) } else { String::new() };
            // one sorted statement in six selects the wildcard: the output columns are then
            // the table's own, in table order, and the sort keys sit at their column indices
            let star = rng.fork(0x57a2).chance(1, 6);
            Some(Stmt {
                sql: format!(
                    "SELECT {} FROM {tn}{} ORDER BY {}{lim}",
                    if star { "*".to_string() } else { items.join(", ") },
                    opt_where(rng, t, ""),
                    ob.join(", ")
                ),
                family: if fam == Family::TopN { "topn" } else { "sort_all" },
                order_keys: if star { keys.clone() } else { (0..keys.len()).collect() },
                tables: vec![tn.clone()],
                features: if star { vec!["select_star".to_string()] } else { vec![] },
            })
        }
        Family::Join | Family::JoinAgg | Family::SelfJoin => {
            let o = if fam == Family::SelfJoin { t } else { other? };
            // join keys: same-named, same-typed non-id columns, or id = q/k style keys
            let mut pairs: Vec<(usize, usize)> = Vec::new();
            for (i, c) in t.cols.iter().enumerate().skip(1) {
                if c.ty == Ty::F64 || c.ty == Ty::Bool {
                    continue;
                }
                if let Some(j) = o.col(&c.name) {
                    if o.cols[j].ty == c.ty {
                        pairs.push((i, j));
                    }
                }
            }
            if pairs.is_empty() {
                return None;
            }
            rng.shuffle(&mut pairs);
            pairs.truncate(1 + rng.usize(2.min(pairs.len())));
            let jt = *rng.pick(&["JOIN", "INNER JOIN", "LEFT JOIN", "RIGHT JOIN", "FULL OUTER JOIN", "LEFT JOIN", "JOIN"]);
            let mut on: Vec<String> =
                pairs.iter().map(|&(i, j)| format!("a.{} = b.{}", t.cols[i].name, o.cols[j].name)).collect();
            if rng.chance(1, 3) {
                // residual predicate on one side
                if rng.coin() {
                    on.push(atom(rng, t, "a."));
                } else {
                    on.push(atom(rng, o, "b."));
                }
            }
            let wh = if rng.chance(1, 3) {
                format!(" WHERE {}", if rng.coin() { atom(rng, t, "a.") } else { atom(rng, o, "b.") })
            } else {
                String::new()
            };
            // one join in four reads one side through a derived table with a range filter
            // on the clustered id column: whole batches (and with them whole scan
            // partitions) of that side then carry no row into the join. Drawn from a
            // forked stream so the other draws of the statement do not shift.
            let mut dr = rng.fork(0xd371);
            let (a_src, b_src) = if dr.chance(1, 4) {
                let side_a = dr.coin();
                let st = if side_a { t } else { o };
                let cols: Vec<String> = st.cols.iter().map(|c| c.name.clone()).collect();
                let op = *dr.pick(&[">=", ">=", "<", ">", "<="]);
                let lit = if st.rows > 0 { dr.usize(st.rows + 1).to_string() } else { "0".to_string() };
                let d = format!("(SELECT {} FROM {} WHERE id {op} {lit})", cols.join(", "), st.name);
                if side_a {
                    (d, o.name.clone())
                } else {
                    (tn.clone(), d)
                }
            } else {
                (tn.clone(), o.name.clone())
            };
            let derived = a_src.starts_with('(') || b_src.starts_with('(');
            // one join in three continues left-deep into a third input (at most 40 rows of
            // any catalog table, so the result stays small): (a JT b) JT2 c. With an outer
            // JT2 the first join sits under a null-supplying or a preserved side.
            let mut j3 = rng.fork(0x3a11);
            let mut third = String::new();
            let mut third_table: Option<String> = None;
            if fam != Family::SelfJoin && j3.chance(1, 3) {
                let c_t = &tables[j3.usize(tables.len())];
                let mut cands: Vec<String> = Vec::new();
                for (side, st) in [("a", t), ("b", o)] {
                    for c in st.cols.iter().skip(1) {
                        if c.ty == Ty::F64 || c.ty == Ty::Bool {
                            continue;
                        }
                        if let Some(j) = c_t.col(&c.name) {
                            if c_t.cols[j].ty == c.ty {
                                cands.push(format!("{side}.{} = c.{}", c.name, c_t.cols[j].name));
                            }
                        }
                    }
                }
                if !cands.is_empty() {
                    let jt2 = *j3.pick(&["JOIN", "LEFT JOIN", "RIGHT JOIN", "FULL OUTER JOIN", "RIGHT JOIN"]);
                    let cols: Vec<String> = c_t.cols.iter().map(|c| c.name.clone()).collect();
                    let cut = 1 + j3.usize(40);
                    third = format!(" {jt2} (SELECT {} FROM {} WHERE id < {cut}) c ON {}", cols.join(", "), c_t.name, j3.pick(&cands));
                    third_table = Some(c_t.name.clone());
                }
            }
            let from = format!("{a_src} a {jt} {b_src} b ON {}{third}", on.join(" AND "));
            let mut tables = if fam == Family::SelfJoin { vec![tn.clone()] } else { vec![tn.clone(), o.name.clone()] };
            if let Some(c) = &third_table {
                if !tables.contains(c) {
                    tables.push(c.clone());
                }
            }
            let three = third_table.is_some();
            if fam == Family::JoinAgg || (fam == Family::SelfJoin && rng.coin()) {
                let gc = group_cols(t);
                let grouped = !gc.is_empty() && rng.chance(2, 3);
                let mut items = Vec::new();
                let mut gnames = Vec::new();
                if grouped {
                    let g = *rng.pick(&gc);
                    gnames.push(format!("a.{}", t.cols[g].name));
                    items.push(format!("a.{} AS g0", t.cols[g].name));
                }
                items.push("COUNT(*) AS n".to_string());
                for i in 0..rng.usize(3) {
                    let a = if rng.coin() { agg_item(rng, t, "a.", false) } else { agg_item(rng, o, "b.", false) };
                    items.push(format!("{a} AS a{i}"));
                }
                let gb = if grouped { format!(" GROUP BY {}", gnames.join(", ")) } else { String::new() };
                Some(Stmt {
                    sql: format!("SELECT {} FROM {from}{wh}{gb}", items.join(", ")),
                    family: if fam == Family::SelfJoin { "self_join_agg" } else { "join_agg" },
                    order_keys: vec![],
                    tables,
                    features: {
                        let mut f = Vec::new();
                        if derived {
                            f.push("derived_join_side".to_string());
                        }
                        if three {
                            f.push("three_way_join".to_string());
                        }
                        f
                    },
                })
            } else {
                let mut items = vec!["a.id AS a_id".to_string(), "b.id AS b_id".to_string()];
                if three {
                    items.push("c.id AS c_id".to_string());
                }
                for (n, c) in t.cols.iter().enumerate().skip(1) {
                    if rng.chance(1, 3) {
                        items.push(format!("a.{} AS a_{}{n}", c.name, c.name));
                    }
                }
                for (n, c) in o.cols.iter().enumerate().skip(1) {
                    if rng.chance(1, 3) {
                        items.push(format!("b.{} AS b_{}{n}", c.name, c.name));
                    }
                }
                // one plain join in five also asks for a correlated EXISTS and sorts by columns of
                // both sides that the select list may not carry
                let mut ex = rng.fork(0xe715);
                let mut exists_sorted = false;
                let wh = if ex.chance(1, 5) {
                    let (i, j) = pairs[0];
                    let e = format!("EXISTS (SELECT 1 FROM {} z WHERE z.{} = a.{})", o.name, o.cols[j].name, t.cols[i].name);
                    let ac = &t.cols[ex.usize(t.cols.len())].name;
                    let bc = &o.cols[ex.usize(o.cols.len())].name;
                    exists_sorted = true;
                    // and carries the two sort columns as unaliased qualified select items
                    // (output names `ac`, `bc`) when those names differ
                    if ac != bc && ac != "id" && bc != "id" {
                        items.push(format!("a.{ac}"));
                        items.push(format!("b.{bc}"));
                    }
                    format!("{} ORDER BY a.{ac}, b.{bc}, a.id, b.id", if wh.is_empty() { format!(" WHERE {e}") } else { format!("{wh} AND {e}") })
                } else {
                    wh
                };
                // one plain join in six is a page sorted by a QUALIFIED column of the right side
                // whose bare name is also the output name of a left-side item (`SELECT a.id,
                // b.id AS b_tail .. ORDER BY b.id, a.id LIMIT n`): (a.id, b.id) is unique per
                // joined pair, so the page is determined
                let mut tq = rng.fork(0x7a11);
                let tail_sorted = !three && !exists_sorted && fam != Family::SelfJoin && tq.chance(1, 6);
                let wh = if tail_sorted {
                    items.push("a.id".to_string());
                    items.push("b.id AS b_tail".to_string());
                    format!("{wh} ORDER BY b.id{}, a.id{} LIMIT {}", dir(&mut tq), dir(&mut tq), 1 + tq.usize(30))
                } else {
                    wh
                };
                Some(Stmt {
                    sql: format!("SELECT {} FROM {from}{wh}", items.join(", ")),
                    family: if fam == Family::SelfJoin { "self_join" } else { "join" },
                    order_keys: vec![],
                    tables,
                    features: {
                        let mut f = Vec::new();
                        if derived {
                            f.push("derived_join_side".to_string());
                        }
                        if three {
                            f.push("three_way_join".to_string());
                        }
                        if exists_sorted {
                            f.push("exists_and_two_sided_order_by".to_string());
                        }
                        if tail_sorted {
                            f.push("page_sorted_by_qualified_tail".to_string());
                        }
                        f
                    },
                })
            }
        }
        Family::Subquery => {
            let o = other.unwrap_or(t);
            let keyable = |x: &Table| -> Vec<usize> {
                (1..x.cols.len()).filter(|&i| !matches!(x.cols[i].ty, Ty::F64 | Ty::Bool)).collect()
            };
            let mut shared: Vec<(usize, usize)> = Vec::new();
            for i in keyable(t) {
                if let Some(j) = o.col(&t.cols[i].name) {
                    if o.cols[j].ty == t.cols[i].ty {
                        shared.push((i, j));
                    }
                }
            }
            let nums_o = cols_where(o, |ty| ty.is_int());
            let sel = format!("id, {}", t.cols[rng.usize(t.cols.len())].name);
            let sql = match rng.below(6) {
                0 | 1 if !shared.is_empty() => {
                    let (i, j) = *rng.pick(&shared);
                    let neg = if rng.chance(1, 4) { "NOT " } else { "" };
                    format!(
                        "SELECT {sel} FROM {tn} WHERE {} {neg}IN (SELECT {} FROM {}{})",
                        t.cols[i].name,
                        o.cols[j].name,
                        o.name,
                        opt_where(rng, o, "")
                    )
                }
                2 | 3 if !shared.is_empty() => {
                    let (i, j) = *rng.pick(&shared);
                    let neg = if rng.chance(1, 3) { "NOT " } else { "" };
                    format!(
                        "SELECT {sel} FROM {tn} x WHERE {neg}EXISTS (SELECT 1 FROM {} y WHERE y.{} = x.{})",
                        o.name, o.cols[j].name, t.cols[i].name
                    )
                }
                4 if !nums_o.is_empty() => {
                    let c = *rng.pick(&nums_o);
                    let ints_t = cols_where(t, |ty| ty.is_int());
                    let lhs = t.cols[*rng.pick(&ints_t)].name.clone();
                    let f = *rng.pick(&["MAX", "MIN", "AVG"]);
                    format!(
                        "SELECT {sel} FROM {tn} WHERE {lhs} > (SELECT {f}({}) FROM {}{})",
                        o.cols[c].name,
                        o.name,
                        opt_where(rng, o, "")
                    )
                }
                _ => {
                    // scalar subquery in SELECT (uncorrelated)
                    format!("SELECT id, (SELECT COUNT(*) FROM {}{}) AS n FROM {tn}{}", o.name, opt_where(rng, o, ""), opt_where(rng, t, ""))
                }
            };
            // one in three sorts by a column the select list may not carry (compared as a
            // multiset: the statement must still bind and answer on every path)
            let mut ob = rng.fork(0x0b51);
            let mut features = vec![];
            let sql = if ob.chance(1, 3) {
                let q = if sql.contains(&format!("FROM {tn} x WHERE")) { "x." } else { "" };
                let c = &t.cols[ob.usize(t.cols.len())].name;
                features.push("order_by_unselected".to_string());
                format!("{sql} ORDER BY {q}{c}, {q}id")
            } else {
                sql
            };
            let mut tables = vec![tn.clone()];
            if o.name != *tn {
                tables.push(o.name.clone());
            }
            Some(Stmt { sql, family: "subquery", order_keys: vec![], tables, features })
        }
        Family::Cte => {
            let gc = group_cols(t);
            if gc.is_empty() {
                return None;
            }
            let g = *rng.pick(&gc);
            let gname = &t.cols[g].name;
            let wh = opt_where(rng, t, "");
            let sql = match rng.below(3) {
                0 => format!(
                    "WITH c AS (SELECT {gname} AS g, id FROM {tn}{wh}) SELECT COUNT(*) AS n FROM c x JOIN c y ON x.g = y.g"
                ),
                1 => format!(
                    "WITH c AS (SELECT {gname} AS g, COUNT(*) AS n FROM {tn}{wh} GROUP BY {gname}) SELECT g, n FROM c WHERE n >= (SELECT MIN(n) FROM c)"
                ),
                _ => format!(
                    "WITH c AS (SELECT id, {gname} AS g FROM {tn}{wh}) SELECT x.id AS xid, y.id AS yid FROM c x JOIN c y ON x.g = y.g WHERE x.id < y.id AND x.id < 40"
                ),
            };
            Some(Stmt { sql, family: "cte", order_keys: vec![], tables: vec![tn.clone()], features: vec![] })
        }
        Family::SetOp => {
            let o = other.unwrap_or(t);
            let mut shared: Vec<(usize, usize)> = Vec::new();
            for i in 1..t.cols.len() {
                if t.cols[i].ty == Ty::F64 {
                    continue;
                }
                if let Some(j) = o.col(&t.cols[i].name) {
                    if o.cols[j].ty == t.cols[i].ty {
                        shared.push((i, j));
                    }
                }
            }
            if shared.is_empty() {
                return None;
            }
            rng.shuffle(&mut shared);
            shared.truncate(1 + rng.usize(2.min(shared.len())));
            let l: Vec<String> = shared.iter().map(|&(i, _)| t.cols[i].name.clone()).collect();
            let r: Vec<String> = shared.iter().map(|&(_, j)| o.cols[j].name.clone()).collect();
            let op = *rng.pick(&["UNION", "UNION ALL", "INTERSECT", "EXCEPT", "UNION ALL"]);
            let mut tables = vec![tn.clone()];
            if o.name != *tn {
                tables.push(o.name.clone());
            }
            Some(Stmt {
                sql: format!(
                    "SELECT {} FROM {tn}{} {op} SELECT {} FROM {}{}",
                    l.join(", "),
                    opt_where(rng, t, ""),
                    r.join(", "),
                    o.name,
                    opt_where(rng, o, "")
                ),
                family: "set_op",
                order_keys: vec![],
                tables,
                features: vec![],
            })
        }
        Family::Distinct => {
            let gc = group_cols(t);
            if gc.is_empty() {
                return None;
            }
            let sql = if rng.coin() {
                let mut g = gc.clone();
                rng.shuffle(&mut g);
                g.truncate(1 + rng.usize(2.min(g.len())));
                let names: Vec<String> = g.iter().map(|&c| t.cols[c].name.clone()).collect();
                format!("SELECT DISTINCT {} FROM {tn}{}", names.join(", "), opt_where(rng, t, ""))
            } else {
                let g = *rng.pick(&gc);
                let c = *rng.pick(&gc);
                if rng.coin() {
                    format!("SELECT COUNT(DISTINCT {}) AS n FROM {tn}{}", t.cols[c].name, opt_where(rng, t, ""))
                } else {
                    format!(
                        "SELECT {}, COUNT(DISTINCT {}) AS n FROM {tn}{} GROUP BY {}",
                        t.cols[g].name,
                        t.cols[c].name,
                        opt_where(rng, t, ""),
                        t.cols[g].name
                    )
                }
            };
            Some(Stmt { sql, family: "distinct", order_keys: vec![], tables: vec![tn.clone()], features: vec![] })
        }
        Family::Window => {
            let gc = group_cols(t);
            if gc.is_empty() {
                return None;
            }
            let g = *rng.pick(&gc);
            let f = *rng.pick(&["ROW_NUMBER()", "RANK()", "COUNT(*)"]);
            Some(Stmt {
                sql: format!(
                    "SELECT id, {f} OVER (PARTITION BY {} ORDER BY id) AS w FROM {tn}{}",
                    t.cols[g].name,
                    opt_where(rng, t, "")
                ),
                family: "window",
                order_keys: vec![],
                tables: vec![tn.clone()],
                features: vec![],
            })
        }
    }
}

/// `n` statements drawn from `fams` (uniformly over families, skipping shapes the
/// catalog cannot express).
pub fn gen_many(rng: &mut Rng, tables: &[Table], fams: &[Family], n: usize) -> Vec<Stmt> {
    let mut out = Vec::new();
    let mut tries = 0;
    while out.len() < n && tries < n * 8 {
        tries += 1;
        let f = *rng.pick(fams);
        if let Some(s) = gen(rng, tables, f) {
            out.push(s);
        }
    }
    out
}
