//! Grammar-directed statement generator.  Statements are chosen for the execution path
//! they reach (merge shape, spill decision, partitioned operator), not for SQL coverage,
//! and only constructs whose answer is a deterministic multiset (and a deterministic
//! sequence of ORDER BY keys) are produced, so a differential can never alarm on a
//! legitimately unspecified order or a rounding difference.

use super::datagen::{ColData, Table, Ty};
use super::rng::Rng;

#[derive(Clone, Debug)]
pub struct Stmt {
    pub sql: String,
    pub family: &'static str,
    /// output column positions that the ORDER BY fixes, in key order
    pub order_keys: Vec<usize>,
    /// names of the tables the statement reads
    pub tables: Vec<String>,
    /// generator-known peculiarities (e.g. "dup_select_items")
    pub features: Vec<String>,
}

#[derive(Clone, Copy, Debug, PartialEq, Eq)]
pub enum Family {
    Filter,
    GlobalAgg,
    GroupAgg,
    TopN,
    Join,
    JoinAgg,
    Subquery,
    Cte,
    SetOp,
    Distinct,
    SelfJoin,
    Window,
    SortAll,
}

pub const SCATTER_FAMILIES: &[Family] =
    &[Family::Filter, Family::GlobalAgg, Family::GroupAgg, Family::TopN, Family::Join, Family::JoinAgg, Family::SortAll];
pub const GATHER_FAMILIES: &[Family] =
    &[Family::Subquery, Family::Cte, Family::SetOp, Family::Distinct, Family::SelfJoin, Family::Window];
pub const ALL_FAMILIES: &[Family] = &[
    Family::Filter,
    Family::GlobalAgg,
    Family::GroupAgg,
    Family::TopN,
    Family::Join,
    Family::JoinAgg,
    Family::Subquery,
    Family::Cte,
    Family::SetOp,
    Family::Distinct,
    Family::SelfJoin,
    Family::Window,
    Family::SortAll,
];

fn has_neg_zero(t: &Table, c: usize) -> bool {
    match &t.data[c] {
        ColData::F64(v) => v.iter().any(|x| matches!(x, Some(f) if *f == 0.0 && f.is_sign_negative())),
        _ => false,
    }
}

fn cols_where<'a>(t: &'a Table, f: impl Fn(Ty) -> bool + 'a) -> Vec<usize> {
    (0..t.cols.len()).filter(|&i| f(t.cols[i].ty)).collect()
}

/// A literal drawn from the column's own data, or a value just outside its range.
fn literal_for(rng: &mut Rng, t: &Table, c: usize) -> String {
    if t.rows > 0 && rng.chance(7, 8) {
        for _ in 0..4 {
            let i = rng.usize(t.rows);
            if let Some(l) = t.data[c].literal(i) {
                return l;
            }
        }
    }
    match t.cols[c].ty {
        Ty::I64 => rng.range(-10, 100).to_string(),
        Ty::I32 => rng.range(-10, 100).to_string(),
        Ty::F64 => format!("{:.1}", rng.range(-100, 100) as f64 / 2.0),
        Ty::Str => "'alpha'".into(),
        Ty::Date => super::datagen::date_literal(8000 + rng.range(0, 4000) as i32),
        Ty::Bool => "TRUE".into(),
    }
}

fn atom(rng: &mut Rng, t: &Table, q: &str) -> String {
    let c = rng.usize(t.cols.len());
    let name = format!("{q}{}", t.cols[c].name);
    let ty = t.cols[c].ty;
    match rng.below(12) {
        0 => format!("{name} IS NULL"),
        1 => format!("{name} IS NOT NULL"),
        2 if ty != Ty::Bool => {
            let (a, b) = (literal_for(rng, t, c), literal_for(rng, t, c));
            format!("{name} BETWEEN {a} AND {b}")
        }
        3 if ty != Ty::Bool => {
            let n = 1 + rng.usize(4);
            let xs: Vec<String> = (0..n).map(|_| literal_for(rng, t, c)).collect();
            format!("{name} {}IN ({})", if rng.chance(1, 4) { "NOT " } else { "" }, xs.join(", "))
        }
        4 if ty == Ty::Str => {
            let pat = *rng.pick(&["al%", "%a", "%et%", "u0%", "_eta", "%"]);
            format!("{name} {}LIKE '{pat}'", if rng.chance(1, 4) { "NOT " } else { "" })
        }
        _ => {
            if ty == Ty::Bool {
                if rng.coin() {
                    name
                } else {
                    format!("{name} = {}", literal_for(rng, t, c))
                }
            } else {
                let op = *rng.pick(&["=", "<>", "<", "<=", ">", ">="]);
                format!("{name} {op} {}", literal_for(rng, t, c))
            }
        }
    }
}

/// Predicate over one table; `q` is the qualifier prefix ("" or "a.").
pub fn predicate(rng: &mut Rng, t: &Table, q: &str, depth: u32) -> String {
    if depth == 0 || rng.chance(1, 2) {
        return atom(rng, t, q);
    }
    match rng.below(5) {
        0 | 1 => format!("({} AND {})", predicate(rng, t, q, depth - 1), predicate(rng, t, q, depth - 1)),
        2 | 3 => format!("({} OR {})", predicate(rng, t, q, depth - 1), predicate(rng, t, q, depth - 1)),
        _ => format!("NOT ({})", predicate(rng, t, q, depth - 1)),
    }
}

fn opt_where(rng: &mut Rng, t: &Table, q: &str) -> String {
    if rng.chance(3, 5) {
        format!(" WHERE {}", predicate(rng, t, q, 2))
    } else {
        String::new()
    }
}

fn agg_item(rng: &mut Rng, t: &Table, q: &str, allow_distinct: bool) -> String {
    let nums = cols_where(t, |ty| ty.is_numeric());
    let any: Vec<usize> = cols_where(t, |ty| ty != Ty::Bool);
    let ints = cols_where(t, |ty| ty.is_int());
    let col = |c: usize| format!("{q}{}", t.cols[c].name);
    match rng.below(if allow_distinct { 11 } else { 10 }) {
        0 | 1 => "COUNT(*)".to_string(),
        2 => format!("COUNT({})", col(rng.usize(t.cols.len()))),
        3 | 4 if !nums.is_empty() => format!("SUM({})", col(*rng.pick(&nums))),
        5 if !any.is_empty() => format!("MIN({})", col(*rng.pick(&any))),
        6 if !any.is_empty() => format!("MAX({})", col(*rng.pick(&any))),
        7 if !nums.is_empty() => format!("AVG({})", col(*rng.pick(&nums))),
        8 if !ints.is_empty() => {
            let c = *rng.pick(&ints);
            format!("SUM({} * 2 + 1)", col(c))
        }
        9 if !ints.is_empty() => {
            let c = *rng.pick(&ints);
            let p = atom(rng, t, q);
            format!("SUM(CASE WHEN {p} THEN {} ELSE 0 END)", col(c))
        }
        10 if !any.is_empty() => format!("COUNT(DISTINCT {})", col(*rng.pick(&any))),
        _ => "COUNT(*)".to_string(),
    }
}

/// "dup_select_items" when two select items compute the same expression (ignoring the
/// alias): the distributed rewriter then emits two merge columns with one output name.
fn dup_feature(items: &[String]) -> Vec<String> {
    let bare: Vec<&str> = items.iter().map(|i| i.split(" AS ").next().unwrap_or(i)).collect();
    for i in 0..bare.len() {
        for j in 0..i {
            if bare[i] == bare[j] {
                return vec!["dup_select_items".to_string()];
            }
        }
    }
    vec![]
}

fn dir(rng: &mut Rng) -> &'static str {
    *rng.pick(&["", " ASC", " DESC", " ASC NULLS FIRST", " DESC NULLS LAST", " DESC NULLS FIRST", " ASC NULLS LAST"])
}

fn limit_clause(rng: &mut Rng, approx_rows: usize) -> String {
    let n = match rng.below(6) {
        0 => 0,
        1 => 1,
        2 => rng.usize(10) + 1,
        3 => approx_rows + rng.usize(5),
        _ => rng.usize(approx_rows.max(1)) + 1,
    };
    let mut s = format!(" LIMIT {n}");
    if rng.chance(1, 3) {
        let m = match rng.below(4) {
            0 => 0,
            1 => approx_rows + 3,
            _ => rng.usize(approx_rows.max(1)),
        };
        s.push_str(&format!(" OFFSET {m}"));
    }
    s
}

fn group_cols(t: &Table) -> Vec<usize> {
    // never group on doubles (−0.0 / 0.0 grouping is engine-defined) nor on the unique id
    (1..t.cols.len()).filter(|&i| t.cols[i].ty != Ty::F64).collect()
}

fn sortable_cols(t: &Table) -> Vec<usize> {
    (0..t.cols.len()).filter(|&i| !(t.cols[i].ty == Ty::F64 && has_neg_zero(t, i))).collect()
}

pub fn gen(rng: &mut Rng, tables: &[Table], fam: Family) -> Option<Stmt> {
    let ti = rng.usize(tables.len());
    let t = &tables[ti];
    let other = if tables.len() > 1 {
        let mut j = rng.usize(tables.len() - 1);
        if j >= ti {
            j += 1;
        }
        Some(&tables[j])
    } else {
        None
    };
    let tn = &t.name;
    match fam {
        Family::Filter => {
            let mut cols: Vec<usize> = (0..t.cols.len()).collect();
            rng.shuffle(&mut cols);
            cols.truncate(1 + rng.usize(t.cols.len()));
            let mut items: Vec<String> = cols.iter().map(|&c| t.cols[c].name.clone()).collect();
            if rng.chance(1, 4) {
                let ints = cols_where(t, |ty| ty.is_int());
                if !ints.is_empty() {
                    let c = *rng.pick(&ints);
                    items.push(format!("{} + 1 AS e1", t.cols[c].name));
                    items.push(format!("CASE WHEN {} > 3 THEN 'hi' ELSE 'lo' END AS e2", t.cols[c].name));
                }
            }
            let star = rng.chance(1, 8);
            let sel = if star { "*".to_string() } else { items.join(", ") };
            Some(Stmt {
                sql: format!("SELECT {sel} FROM {tn}{}", opt_where(rng, t, "")),
                family: "filter",
                order_keys: vec![],
                tables: vec![tn.clone()],
                features: vec![],
            })
        }
        Family::GlobalAgg => {
            let n = 1 + rng.usize(4);
            let items: Vec<String> = (0..n)
                .map(|i| {
                    let a = agg_item(rng, t, "", false);
                    if rng.coin() {
                        format!("{a} AS a{i}")
                    } else {
                        a
                    }
                })
                .collect();
            let features = dup_feature(&items);
            Some(Stmt {
                sql: format!("SELECT {} FROM {tn}{}", items.join(", "), opt_where(rng, t, "")),
                family: "global_agg",
                order_keys: vec![],
                tables: vec![tn.clone()],
                features,
            })
        }
        Family::GroupAgg => {
            let gc = group_cols(t);
            if gc.is_empty() {
                return None;
            }
            let mut g = gc.clone();
            rng.shuffle(&mut g);
            g.truncate(1 + rng.usize(2.min(g.len())));
            let gnames: Vec<String> = g.iter().map(|&c| t.cols[c].name.clone()).collect();
            let n = 1 + rng.usize(3);
            let mut items = gnames.clone();
            let mut aggs = Vec::new();
            for i in 0..n {
                let a = agg_item(rng, t, "", false);
                aggs.push(a.clone());
                items.push(if rng.coin() { format!("{a} AS a{i}") } else { a });
            }
            let wh = opt_where(rng, t, "");
            let having = if rng.chance(1, 4) {
                format!(" HAVING COUNT(*) > {}", rng.usize(4))
            } else {
                String::new()
            };
            let mut sql = format!(
                "SELECT {} FROM {tn}{wh} GROUP BY {}{having}",
                items.join(", "),
                gnames.join(", ")
            );
            let mut order_keys = vec![];
            if rng.chance(1, 2) {
                // total order over the groups: all group keys
                let keys: Vec<String> = gnames.iter().map(|g| format!("{g}{}", dir(rng))).collect();
                sql.push_str(&format!(" ORDER BY {}", keys.join(", ")));
                order_keys = (0..gnames.len()).collect();
                if rng.chance(1, 2) {
                    sql.push_str(&limit_clause(rng, 12));
                }
            }
            let features = dup_feature(&items);
            Some(Stmt { sql, family: "group_agg", order_keys, tables: vec![tn.clone()], features })
        }
        Family::TopN | Family::SortAll => {
            let sc = sortable_cols(t);
            let mut keys: Vec<usize> = sc.iter().cloned().filter(|&c| c != 0).collect();
            rng.shuffle(&mut keys);
            keys.truncate(rng.usize(3));
            keys.push(0); // id last: total order
            let mut sel: Vec<usize> = keys.clone();
            for c in 0..t.cols.len() {
                if !sel.contains(&c) && rng.coin() {
                    sel.push(c);
                }
            }
            let items: Vec<String> = sel.iter().map(|&c| t.cols[c].name.clone()).collect();
            let ob: Vec<String> = keys.iter().map(|&c| format!("{}{}", t.cols[c].name, dir(rng))).collect();
            let lim = if fam == Family::TopN { limit_clause(rng, t.rows) } else { String::new() };
            Some(Stmt {
                sql: format!(
                    "SELECT {} FROM {tn}{} ORDER BY {}{lim}",
                    items.join(", "),
                    opt_where(rng, t, ""),
                    ob.join(", ")
                ),
                family: if fam == Family::TopN { "topn" } else { "sort_all" },
                order_keys: (0..keys.len()).collect(),
                tables: vec![tn.clone()],
                features: vec![],
            })
        }
        Family::Join | Family::JoinAgg | Family::SelfJoin => {
            let o = if fam == Family::SelfJoin { t } else { other? };
            // join keys: same-named, same-typed non-id columns, or id = q/k style keys
            let mut pairs: Vec<(usize, usize)> = Vec::new();
            for (i, c) in t.cols.iter().enumerate().skip(1) {
                if c.ty == Ty::F64 || c.ty == Ty::Bool {
                    continue;
                }
                if let Some(j) = o.col(&c.name) {
                    if o.cols[j].ty == c.ty {
                        pairs.push((i, j));
                    }
                }
            }
            if pairs.is_empty() {
                return None;
            }
            rng.shuffle(&mut pairs);
            pairs.truncate(1 + rng.usize(2.min(pairs.len())));
            let jt = *rng.pick(&["JOIN", "INNER JOIN", "LEFT JOIN", "RIGHT JOIN", "FULL OUTER JOIN", "LEFT JOIN", "JOIN"]);
            let mut on: Vec<String> =
                pairs.iter().map(|&(i, j)| format!("a.{} = b.{}", t.cols[i].name, o.cols[j].name)).collect();
            if rng.chance(1, 3) {
                // residual predicate on one side
                if rng.coin() {
                    on.push(atom(rng, t, "a."));
                } else {
                    on.push(atom(rng, o, "b."));
                }
            }
            let wh = if rng.chance(1, 3) {
                format!(" WHERE {}", if rng.coin() { atom(rng, t, "a.") } else { atom(rng, o, "b.") })
            } else {
                String::new()
            };
            let from = format!("{tn} a {jt} {} b ON {}", o.name, on.join(" AND "));
            let tables = if fam == Family::SelfJoin { vec![tn.clone()] } else { vec![tn.clone(), o.name.clone()] };
            if fam == Family::JoinAgg || (fam == Family::SelfJoin && rng.coin()) {
                let gc = group_cols(t);
                let grouped = !gc.is_empty() && rng.chance(2, 3);
                let mut items = Vec::new();
                let mut gnames = Vec::new();
                if grouped {
                    let g = *rng.pick(&gc);
                    gnames.push(format!("a.{}", t.cols[g].name));
                    items.push(format!("a.{} AS g0", t.cols[g].name));
                }
                items.push("COUNT(*) AS n".to_string());
                for i in 0..rng.usize(3) {
                    let a = if rng.coin() { agg_item(rng, t, "a.", false) } else { agg_item(rng, o, "b.", false) };
                    items.push(format!("{a} AS a{i}"));
                }
                let gb = if grouped { format!(" GROUP BY {}", gnames.join(", ")) } else { String::new() };
                Some(Stmt {
                    sql: format!("SELECT {} FROM {from}{wh}{gb}", items.join(", ")),
                    family: if fam == Family::SelfJoin { "self_join_agg" } else { "join_agg" },
                    order_keys: vec![],
                    tables,
                    features: vec![],
                })
            } else {
                let mut items = vec!["a.id AS a_id".to_string(), "b.id AS b_id".to_string()];
                for (n, c) in t.cols.iter().enumerate().skip(1) {
                    if rng.chance(1, 3) {
                        items.push(format!("a.{} AS a_{}{n}", c.name, c.name));
                    }
                }
                for (n, c) in o.cols.iter().enumerate().skip(1) {
                    if rng.chance(1, 3) {
                        items.push(format!("b.{} AS b_{}{n}", c.name, c.name));
                    }
                }
                Some(Stmt {
                    sql: format!("SELECT {} FROM {from}{wh}", items.join(", ")),
                    family: if fam == Family::SelfJoin { "self_join" } else { "join" },
                    order_keys: vec![],
                    tables,
                    features: vec![],
                })
            }
        }
        Family::Subquery => {
            let o = other.unwrap_or(t);
            let keyable = |x: &Table| -> Vec<usize> {
                (1..x.cols.len()).filter(|&i| !matches!(x.cols[i].ty, Ty::F64 | Ty::Bool)).collect()
            };
            let mut shared: Vec<(usize, usize)> = Vec::new();
            for i in keyable(t) {
                if let Some(j) = o.col(&t.cols[i].name) {
                    if o.cols[j].ty == t.cols[i].ty {
                        shared.push((i, j));
                    }
                }
            }
            let nums_o = cols_where(o, |ty| ty.is_int());
            let sel = format!("id, {}", t.cols[rng.usize(t.cols.len())].name);
            let sql = match rng.below(6) {
                0 | 1 if !shared.is_empty() => {
                    let (i, j) = *rng.pick(&shared);
                    let neg = if rng.chance(1, 4) { "NOT " } else { "" };
                    format!(
                        "SELECT {sel} FROM {tn} WHERE {} {neg}IN (SELECT {} FROM {}{})",
                        t.cols[i].name,
                        o.cols[j].name,
                        o.name,
                        opt_where(rng, o, "")
                    )
                }
                2 | 3 if !shared.is_empty() => {
                    let (i, j) = *rng.pick(&shared);
                    let neg = if rng.chance(1, 3) { "NOT " } else { "" };
                    format!(
                        "SELECT {sel} FROM {tn} x WHERE {neg}EXISTS (SELECT 1 FROM {} y WHERE y.{} = x.{})",
                        o.name, o.cols[j].name, t.cols[i].name
                    )
                }
                4 if !nums_o.is_empty() => {
                    let c = *rng.pick(&nums_o);
                    let ints_t = cols_where(t, |ty| ty.is_int());
                    let lhs = t.cols[*rng.pick(&ints_t)].name.clone();
                    let f = *rng.pick(&["MAX", "MIN", "AVG"]);
                    format!(
                        "SELECT {sel} FROM {tn} WHERE {lhs} > (SELECT {f}({}) FROM {}{})",
                        o.cols[c].name,
                        o.name,
                        opt_where(rng, o, "")
                    )
                }
                _ => {
                    // scalar subquery in SELECT (uncorrelated)
                    format!("SELECT id, (SELECT COUNT(*) FROM {}{}) AS n FROM {tn}{}", o.name, opt_where(rng, o, ""), opt_where(rng, t, ""))
                }
            };
            let mut tables = vec![tn.clone()];
            if o.name != *tn {
                tables.push(o.name.clone());
            }
            Some(Stmt { sql, family: "subquery", order_keys: vec![], tables, features: vec![] })
        }
        Family::Cte => {
            let gc = group_cols(t);
            if gc.is_empty() {
                return None;
            }
            let g = *rng.pick(&gc);
            let gname = &t.cols[g].name;
            let wh = opt_where(rng, t, "");
            let sql = match rng.below(3) {
                0 => format!(
                    "WITH c AS (SELECT {gname} AS g, id FROM {tn}{wh}) SELECT COUNT(*) AS n FROM c x JOIN c y ON x.g = y.g"
                ),
                1 => format!(
                    "WITH c AS (SELECT {gname} AS g, COUNT(*) AS n FROM {tn}{wh} GROUP BY {gname}) SELECT g, n FROM c WHERE n >= (SELECT MIN(n) FROM c)"
                ),
                _ => format!(
                    "WITH c AS (SELECT id, {gname} AS g FROM {tn}{wh}) SELECT x.id AS xid, y.id AS yid FROM c x JOIN c y ON x.g = y.g WHERE x.id < y.id AND x.id < 40"
                ),
            };
            Some(Stmt { sql, family: "cte", order_keys: vec![], tables: vec![tn.clone()], features: vec![] })
        }
        Family::SetOp => {
            let o = other.unwrap_or(t);
            let mut shared: Vec<(usize, usize)> = Vec::new();
            for i in 1..t.cols.len() {
                if t.cols[i].ty == Ty::F64 {
                    continue;
                }
                if let Some(j) = o.col(&t.cols[i].name) {
                    if o.cols[j].ty == t.cols[i].ty {
                        shared.push((i, j));
                    }
                }
            }
            if shared.is_empty() {
                return None;
            }
            rng.shuffle(&mut shared);
            shared.truncate(1 + rng.usize(2.min(shared.len())));
            let l: Vec<String> = shared.iter().map(|&(i, _)| t.cols[i].name.clone()).collect();
            let r: Vec<String> = shared.iter().map(|&(_, j)| o.cols[j].name.clone()).collect();
            let op = *rng.pick(&["UNION", "UNION ALL", "INTERSECT", "EXCEPT", "UNION ALL"]);
            let mut tables = vec![tn.clone()];
            if o.name != *tn {
                tables.push(o.name.clone());
            }
            Some(Stmt {
                sql: format!(
                    "SELECT {} FROM {tn}{} {op} SELECT {} FROM {}{}",
                    l.join(", "),
                    opt_where(rng, t, ""),
                    r.join(", "),
                    o.name,
                    opt_where(rng, o, "")
                ),
                family: "set_op",
                order_keys: vec![],
                tables,
                features: vec![],
            })
        }
        Family::Distinct => {
            let gc = group_cols(t);
            if gc.is_empty() {
                return None;
            }
            let sql = if rng.coin() {
                let mut g = gc.clone();
                rng.shuffle(&mut g);
                g.truncate(1 + rng.usize(2.min(g.len())));
                let names: Vec<String> = g.iter().map(|&c| t.cols[c].name.clone()).collect();
                format!("SELECT DISTINCT {} FROM {tn}{}", names.join(", "), opt_where(rng, t, ""))
            } else {
                let g = *rng.pick(&gc);
                let c = *rng.pick(&gc);
                if rng.coin() {
                    format!("SELECT COUNT(DISTINCT {}) AS n FROM {tn}{}", t.cols[c].name, opt_where(rng, t, ""))
                } else {
                    format!(
                        "SELECT {}, COUNT(DISTINCT {}) AS n FROM {tn}{} GROUP BY {}",
                        t.cols[g].name,
                        t.cols[c].name,
                        opt_where(rng, t, ""),
                        t.cols[g].name
                    )
                }
            };
            Some(Stmt { sql, family: "distinct", order_keys: vec![], tables: vec![tn.clone()], features: vec![] })
        }
        Family::Window => {
            let gc = group_cols(t);
            if gc.is_empty() {
                return None;
            }
            let g = *rng.pick(&gc);
            let f = *rng.pick(&["ROW_NUMBER()", "RANK()", "COUNT(*)"]);
            Some(Stmt {
                sql: format!(
                    "SELECT id, {f} OVER (PARTITION BY {} ORDER BY id) AS w FROM {tn}{}",
                    t.cols[g].name,
                    opt_where(rng, t, "")
                ),
                family: "window",
                order_keys: vec![],
                tables: vec![tn.clone()],
                features: vec![],
            })
        }
    }
}

/// `n` statements drawn from `fams` (uniformly over families, skipping shapes the
/// catalog cannot express).
pub fn gen_many(rng: &mut Rng, tables: &[Table], fams: &[Family], n: usize) -> Vec<Stmt> {
    let mut out = Vec::new();
    let mut tries = 0;
    while out.len() < n && tries < n * 8 {
        tries += 1;
        let f = *rng.pick(fams);
        if let Some(s) = gen(rng, tables, f) {
            out.push(s);
        }
    }
    out
}
