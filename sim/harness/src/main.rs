mod cluster;
mod exec;
mod fshist;
mod kit;
mod stream;

use kit::report::{self, CheckSpec, RunFn, Tier};

type Cands = fn(&serde_json::Value, &report::Violation) -> Vec<serde_json::Value>;

const CLUSTER_REAL: &[&str] = &["plan_distributed", "plan_gather", "execute_any_distributed", "scatter/merge/unify", "enumerate_parquet", "assign_lpt", "shard_context", "ShardedParquetTable", "execute_fragment", "encode_ipc/decode_ipc", "ExecutionContext::sql", "FragmentRequest serde"];
const CLUSTER_STUB: &[&str] = &["HTTP framing and hyper (bypassed at the transport layer; the wire layer covers them)", "SimTransport replaces HttpTransport"];

fn registry(prop: &str) -> Option<(CheckSpec, RunFn, Cands)> {
    let base = |prop: &'static str, rule: &'static str, runs_quick: u64, runs_thorough: u64| CheckSpec {
        prop,
        engine: "cluster-sim",
        level: "exploration",
        rule,
        runs_quick,
        runs_thorough,
        secs_quick: 50,
        secs_thorough: 900,
        gate_runs: 24,
        real: CLUSTER_REAL,
        stub: CLUSTER_STUB,
        assumptions: &["the single-node answer over the same Parquet files is the oracle; a semantics bug shared by both sides is invisible by construction", "generated DOUBLE values are dyadic so sums are exact in any order", "one rayon worker: event histories and results replay exactly"],
        expected_probes: &[],
    };
    match prop {
        "C09" => {
            let mut s = base("C09", "one run = one seeded world (1-3 generated tables, Parquet layout, 1-8 nodes with per-node copies under different mounts/listing orders) x 10 generated statements, each forced-distributed through the real coordinator over a simulated FragmentTransport and compared with the single-node answer; a case is non-trivial when the single node answered and the cluster did not refuse; distinct = distinct (merge shape, family, cluster size, fragments sent, statement text)", 320, 20000);
            s.expected_probes = &["idle_node", "empty_answer"];
            Some((s, cluster::runs::run_c09, cluster::runs::shrink_candidates))
        }
        "C11" => {
            let mut s = base("C11", "one run = one seeded world; for every table and node counts {1,2,3,random<=8,random<=64,64}: enumerate_parquet over node 0's files, checked against footers read independently by the harness (tiling of every non-empty row group, row and byte conservation), then re-enumerated over a permuted file list and over every other node's copy (different mount, own listing order): split lists and digests must be equal and map to the same files; a quarter of the worlds place same-named files in different directories; distinct = distinct (files, row-group size, rows, node count)", 400, 30000);
            s.expected_probes = &["sub_row_group_splits", "equal_file_names"];
            s.assumptions = &["footers are read by the harness with the parquet crate's SerializedFileReader, independently of the engine's metadata cache", "byte sizes up to 2^40 and zero-byte row groups with rows need synthetic inventories that enumerate_parquet (which takes paths) cannot be given: out of reach, stated"];
            Some((s, cluster::splits::run_c11, cluster::runs::shrink_candidates))
        }
        "C13" => {
            let mut s = base("C13", "one run = one seeded world x 6 statements (plain selects with projection/filter, and COUNT(*) with the same filters); for a seeded N in 1..8 every shard index gets the shard context the coordinator would build, on the node that would own it; the multiset union (or count sum) over shards must equal the unsharded statement; each shard must hide its files and COUNT(*) over it must equal its assigned rows; distinct = distinct (statement, N, row-group size)", 320, 20000);
            s.expected_probes = &["empty_shard", "filtered_shard_scan"];
            Some((s, cluster::splits::run_c13, cluster::runs::shrink_candidates))
        }
        "C10" => {
            let mut s = base("C10", "one run = one seeded world (2-6 nodes) x 8 statements; each statement is first executed fault-free (recording every fragment reply), then re-executed with 1-3 seeded faults on its remote fragments (transport errors of six kinds, truncation at a fraction / a few bytes before the end / exactly before the end-of-stream marker, single-bit flips, forged digest, duplicated request, delay up to 900 simulated seconds); one run in eight additionally re-delivers one recorded reply cut at EVERY byte offset through the real coordinator with a canned responder; one run in five works at the wire instead: POST /sql?distributed=1 against real NodeStates behind real hyper framing and the real http_client, with a link that cuts ONE real /fragment response (clean close or reset) at enumerated offsets -- every header byte, the first and last 48 body bytes and a seeded sample in the quick tier, every byte in the thorough tier -- and requires an error status whenever the cut removed at least one byte; a case is non-trivial when at least one fault fired; distinct = distinct (shape or wire region, fired fault kinds / offset, family, statement)", 320, 12000);
            s.level = "fault_enumeration";
            s.expected_probes = &["reply_fully_enumerated", "truncated_inside_eos_marker", "wire_exchange_recorded", "wire_cut_rejected"];
            s.stub = &["HTTP framing and hyper (bypassed at the transport layer; real in the wire runs, over in-memory duplex pipes instead of sockets)", "SimTransport replaces HttpTransport", "during offset enumeration remote nodes are replaced by a canned responder serving bytes recorded from the real execute_fragment+encode_ipc"];
            Some((s, cluster::faults::run_c10, cluster::runs::shrink_candidates))
        }
        "C14" => {
            let mut s = base("C14", "one run = one seeded world (2-4 nodes); one worker's copy of one table is rewritten with exactly one divergence (renamed file, row-group size, dropped row, added row, re-encoding, extra file, missing file, same layout other values); whether the divergence is split-relevant is decided from footers the harness reads itself; fragments with the initiator's digest are sent to the divergent copy and to an identical copy for shard indices in range, = count and far beyond, for four cluster sizes, and 4 scatter statements run through the coordinator with the divergent worker in the cluster; distinct = distinct (divergence kind, family, fragments served by the divergent worker, row-group size, statement)", 320, 12000);
            s.expected_probes = &["out_of_range_refused", "divergent_worker_idle"];
            Some((s, cluster::faults::run_c14, cluster::runs::shrink_candidates))
        }
        "C45" => {
            let mut s = base("C45", "one run = one seeded multi-table world (same-named columns across tables) x 10 statements from the families the exact planner refuses (subqueries in WHERE and SELECT, CTEs, set operations, DISTINCT, self-joins, windows, joins); statements that plan_distributed accepts are skipped; the gathered run's class and rows must equal the single-node run's; the per-table gathered column lists are attached to a failure as a diagnostic; distinct = distinct (family, cluster size, gathered column lists, statement)", 320, 20000);
            s.expected_probes = &["multi_table_gather", "pruned_gather"];
            Some((s, cluster::faults::run_c45, cluster::runs::shrink_candidates))
        }
        "C04" | "C07" | "C08" => {
            let (p, rule, f): (&'static str, &'static str, RunFn) = match prop {
                "C04" => ("C04", "one run = one seeded scenario (1-3 generated tables, 10 statements of every family) executed in a baseline world (memory, one batch, one worker) and in 3 Parquet worlds (1-5 files, row groups of 1..4096 rows, dictionary and statistics on/off, morsel execution on/off) plus one multi-batch memory world; class and canonical rows of every world must equal the baseline's, in both directions; distinct = distinct (physical plan text, world vector, family)", exec::run_c04),
                "C07" => ("C07", "one run = one seeded scenario (tables of 1000-6000 rows so scans split into partitions, 8 statements) executed in the baseline world and in worlds that vary the batch split (1-14 batches incl. empty), the worker count (1-16; the scan partition count follows it as shipped) and the tokio flavour, and in 3 fully deterministic 'virtual partition' worlds: the partition counts of a 2-13-worker process while every task runs on the one simulated thread, with a seeded coin at the engine's scheduling points (per-partition task start, join build/probe tasks, probe completion, spill-aggregate drains, every scan batch) deciding which task gives up its turn -- one seed is one interleaving, replayed exactly; distinct = distinct (physical plan text, world vector, family, scheduling trace)", exec::run_c07),
                _ => ("C08", "one run = one seeded scenario (sorts with LIMIT/OFFSET and NULLS FIRST/LAST, grouped/global aggregates, joins of every type, DISTINCT, set operations over 200-4000 rows) executed with an unlimited budget and under 4 seeded budgets swept over the scenario's own size estimates (64 B .. multiples of the data size), spill thresholds 0.1-1.0 and batch sizes 1-1024; one budget world in three also arms a disk fault inside the spill paths (the k-th write / append / read / merge of a spill file fails); a world may fail with an explicit error, it may not answer different rows; distinct = distinct (physical plan text, world vector, family)", exec::run_c08),
            };
            let s = CheckSpec {
                prop: p,
                engine: "exec-sim",
                level: "exploration",
                rule,
                runs_quick: 240,
                runs_thorough: 12000,
                secs_quick: 60,
                secs_thorough: 900,
                gate_runs: 16,
                real: &["parser", "binder", "optimizer", "physical planner", "all physical operators incl. spillable join/aggregate/sort", "Parquet readers (eager, streaming, morsel)", "ExecutionContext::sql"],
                stub: &[],
                assumptions: &["the baseline world of the same engine is the oracle: a semantics bug shared by every world is invisible by construction", "generated DOUBLE values are dyadic so sums are exact in any order", "worlds with more than one rayon worker or a multi-threaded tokio runtime are seeded samples of real executions (their results are excluded from the replay hash)"],
                expected_probes: match p {
                    "C07" => &["sched_yield_taken"],
                    "C08" => &["explicit_error_under_budget", "injected_disk_fault_surfaced_as_error"],
                    _ => &[],
                },
            };
            Some((s, f, exec::shrink_candidates))
        }
        "C35" => {
            let mut s = base("C35", "one run = one seeded world (1-4 real NodeStates behind real hyper HTTP/1 framing and the real http_client through the network seam, per-node load outcome: loaded / loads later / load error) driven by 18 seeded events: discovery ticks, real /healthz probe rounds, late loads, and client statements POSTed to /sql in each of arrow/json/csv with mode auto|1|0, a third of them with a fault (refuse, HTTP 500/503/400, truncation, reset, stall until the 600 s fragment timeout on the paused clock) on a peer's /fragment connection; the decision model (loaded? members up? mode? plan_distributed ok?) predicts 503 / local with reason / distributed-or-error; the three bodies must describe the same rows; distinct = distinct (mode, loaded, members, status, fired faults, family, statement)", 200, 12000);
            s.level = "exploration";
            s.real = &["NodeState", "route / sql / fragment handlers", "execute_statement decision", "hyper http1 server framing", "http_client", "HttpTransport", "membership resolve + /healthz probes", "coordinator", "arrow/json/csv encoders"];
            s.stub = &["accept loop, listener and drain are bypassed (serve_stream hands a pipe to the real connection handler)", "the network is a per-connection link task over in-memory pipes"];
            s.expected_probes = &["not_ready_503", "distributed_answer", "local_answer", "late_load", "json_roundtrip", "csv_roundtrip"];
            Some((s, cluster::wire::run_c35, cluster::runs::shrink_candidates))
        }
        "C34" => {
            let mut s = base("C34", "one run = one seeded world (1-3 real NodeStates, some not loaded, membership resolved/probed to a seeded degree); for up to 17 statements (8 generated of every family plus an empty result, a one-row aggregate, a >4096-row UNION ALL in several batches, two sorted results that reach the encoder as ONE batch of a seeded size above 4096 rows, unknown column, unknown table, a syntax error and an unsupported aggregate) and a seeded mode, GetFlightInfo+DoGet are called on the real Flight service in-process and POST /sql?format=arrow goes through real hyper framing, with no event in between; schema names/types, canonical rows, trailer.rows, trailer.distributed vs x-qe-distributed and skipped-reason presence must agree, error classes must correspond; eight malformed / oversized / wrong-version / unknown-mode tickets must be refused with InvalidArgument; distinct = distinct (mode, loaded, status, size class, statement)", 200, 12000);
            s.real = &["QeFlightService (get_flight_info, do_get, ticket parsing, encode_flight_stream)", "execute_statement", "/sql handler behind hyper http1", "http_client", "arrow_flight FlightDataDecoder on the client side"];
            s.stub = &["tonic HTTP/2 transport is not exercised: service methods are called in-process", "accept loop bypassed (serve_stream)"];
            s.expected_probes = &["result_over_4096_rows", "empty_result", "error_unavailable", "error_bad-request"];
            Some((s, cluster::wire::run_c34, cluster::runs::shrink_candidates))
        }
        "C17" => {
            let s = CheckSpec {
                prop: "C17",
                engine: "fs-history-sim",
                level: "exploration",
                rule: "one run = one Iceberg table directory written by the harness's reference writer (format v1 or v2, version-hint or uuid-named metadata, URIs in four spellings, equal file names under different partition directories) through 8 seeded commits (append, delete with status 2, manifest rewrite with status 0, overwrite, rollback, delete-file entry, ORC/AVRO entry, remote URI), a quarter of them stopped at a crash point (before the metadata file, metadata half written, metadata complete but hint not updated); after every commit the table is opened at the current snapshot, at every listed snapshot and at an unlisted id, and the returned rows are compared with the ledger of the files that are live in that snapshot; distinct = distinct (format, catalog style, operation/crash-point sequence)",
                runs_quick: 3000,
                runs_thorough: 200000,
                secs_quick: 50,
                secs_thorough: 900,
                gate_runs: 16,
                real: &["storage::iceberg::open_table, latest_metadata_file, data_files_of, resolve_uri", "ParquetTable over the listed files", "ExecutionContext::register_iceberg + sql"],
                stub: &["the Iceberg writer is the harness's own (apache-avro + serde_json), not a JVM Iceberg library"],
                assumptions: &["the harness writer produces what Iceberg writers produce: a later snapshot's manifests no longer carry an earlier snapshot's DELETED entries", "a half-written metadata file may make the hint-less discovery fail (allowed, counted), it may not change rows"],
                expected_probes: &["current_read_matches", "time_travel_matches", "unknown_snapshot_refused", "refused_delete-files", "refused_non-parquet", "refused_remote-uri", "refused_empty-snapshot"],
            };
            Some((s, fshist::iceberg::run_c17, stream::no_shrink))
        }
        "C19" => {
            let s = CheckSpec {
                prop: "C19",
                engine: "fs-history-sim",
                level: "exploration",
                rule: "one run = one Parquet path written, registered in a serving context and queried through every cached read path (morsel aggregate, eager filtered scan, streaming scan, footer-only aggregate), then rewritten 4 times with a seeded combination of replacement mode (in place / temp + rename), byte length (different / identical) and modification time set by the harness (advanced by seconds / advanced inside the same second / preserved exactly), under a seeded sidecar mode (off / auto / build); after every rewrite five queries run on the serving context and on a freshly registered one and must equal an in-memory registration of the rows just written; distinct = distinct (rewrite mode, mtime policy, length class, sidecar mode, context, query, outcome class)",
                runs_quick: 600,
                runs_thorough: 40000,
                secs_quick: 50,
                secs_thorough: 900,
                gate_runs: 16,
                real: &["storage::metadata_cache", "storage::ipc_cache (ensure_sidecar, is_fresh, build_sidecar, read_row_group)", "ParquetTable (schema, statistics cache)", "morsel / streaming / eager Parquet readers"],
                stub: &["file timestamps are set by the harness with utimensat: this is the clock the caches read"],
                assumptions: &["a context that registered the table before the rewrite is included: that is what a serving node is", "only same-schema rewrites are generated"],
                expected_probes: &["same_length_rewrite", "same_length_and_mtime"],
            };
            Some((s, fshist::rewrite::run_c19, stream::no_shrink))
        }
        "C20" => {
            let s = CheckSpec {
                prop: "C20",
                engine: "fs-history-sim",
                level: "exploration",
                rule: "one run = one Parquet file (1-6 row groups; strings with few, unique or > 4096 distinct values) and 2-4 actors, each a real thread with its own one-thread rayon pool that registers the file and runs 1-2 of five queries with sidecars in build (or auto) mode; half of the actors behave as threads of ANOTHER process (own pid for the staging directory, no shared in-process lock); a seeded controller releases exactly one actor at a time at the park points of ensure_sidecar / build_sidecar / read_row_group, never releases an actor into the held build lock or into the publish lock while the KERNEL reports it held (a non-blocking flock probe, not the engine's announcement), and may kill an other-process builder at any build point; initial conditions: none, a stale sidecar (a third of the runs, mostly other-process actors), a dead builder's staging directory, a fresh sidecar; while all actors are parked a published sidecar carrying .complete must hold every row-group file complete; an inotify observer on the sidecar's parent and on the directory at the published path checks after every step that no entry of a complete published sidecar was unlinked while the directory still stood at that path; every query must equal the sidecar-off answer; distinct = distinct (initial condition, sequence of park sites)",
                runs_quick: 2400,
                runs_thorough: 60000,
                secs_quick: 90,
                secs_thorough: 900,
                gate_runs: 16,
                real: &["storage::ipc_cache ensure_sidecar / is_fresh / build_sidecar / read_row_group", "every sidecar call site (morsel, morsel_agg, streaming scan, eager ParquetTable reads)", "BUILD_LOCK for same-process actors, staging + rename for other-process actors"],
                stub: &["a second process is simulated by a thread that stages under another pid and bypasses the in-process lock (the only two things a process boundary changes for this code); a killed process is an actor thread unwound at a park point"],
                assumptions: &["reads issued from helper threads without an actor id do not park (they run freely)"],
                expected_probes: &["published_sidecar_seen_whole", "reader_and_publisher_interleaved", "two_foreign_builders", "inotify_observer_attached"],
            };
            Some((s, fshist::sidecar::run_c20, stream::no_shrink))
        }
        "C16" | "C41" => {
            let c16 = prop == "C16";
            let s = CheckSpec {
                prop: if c16 { "C16" } else { "C41" },
                engine: "stream-sim",
                level: "fault_enumeration",
                rule: if c16 {
                    "one run = 3 generated well-formed responses (status, shuffled headers with odd-case / duplicated / absent Content-Length, bodies of 0-2000 bytes that may themselves contain header terminators); each is delivered cut at EVERY byte offset followed by a clean close (enumerated for responses up to 2 KiB), plus seeded resets and stalls at random and boundary offsets, under three segmentations (one write, random pieces with delays, split in two) and three timeouts on a paused clock; the oracle is the script: which bytes were delivered before the connection ended; distinct = distinct (declared?, position class, ending, outcome, response)"
                } else {
                    "one run = 5 generated bodies (bytes biased to CR, LF, '0', ';'), each chunked with seeded chunk sizes, upper/lower hex, optional chunk extensions and trailers: the well-formed framing must decode to the body, EVERY proper prefix must be rejected or decode to the whole body, ten malformed framings (missing CRLF, non-hex / negative / empty size, size beyond the remainder, five huge hex sizes) must be rejected, 40 arbitrary byte strings must not panic; 2 more bodies go through http_get over real loopback with a scripted peer thread, complete or cut at a seeded offset; distinct = distinct framed inputs"
                },
                runs_quick: 1600,
                runs_thorough: 20000,
                secs_quick: 45,
                secs_thorough: 900,
                gate_runs: 16,
                real: if c16 { &["distributed::http_client::request / request_inner / parse_response", "tokio timeout on the paused clock"] } else { &["metastore::gravitino::dechunk", "metastore::gravitino::http_get over real loopback TCP"] },
                stub: if c16 { &["the peer is a scripted task behind verif::net::SimTcpStream (a duplex pipe), not a socket"] } else { &["the metastore is a scripted peer thread"] },
                assumptions: if c16 { &["a complete header block followed by at least Content-Length body bytes must be accepted; fewer must be rejected; without Content-Length the body is everything up to EOF (the client's documented contract)"] } else { &["http_get reads to EOF before parsing, so its result is a function of the delivered bytes only (the harness still varies segmentation)"] },
                expected_probes: &[],
            };
            Some((s, if c16 { stream::run_c16 } else { stream::run_c41 }, stream::no_shrink))
        }
        _ => None,
    }
}

fn main() {
    let args: Vec<String> = std::env::args().collect();
    if args.len() < 3 {
        eprintln!("usage: qesim check <PROP> quick|thorough | worker ... | replay <PROP> <file> | run <PROP> <seed-index>");
        std::process::exit(2);
    }
    let cmd = args[1].as_str();
    let prop = args[2].as_str();
    let Some((spec, run, cands)) = registry(prop) else {
        eprintln!("unknown property {prop}");
        std::process::exit(2);
    };
    match cmd {
        "check" => {
            let tier = Tier::parse(args.get(3).map(|s| s.as_str()).unwrap_or("quick"));
            std::process::exit(report::check_main(&spec, tier));
        }
        "worker" => {
            // panics inside the engine are outcomes the simulators record; keep stderr short
            std::panic::set_hook(Box::new(|info| {
                let loc = info.location().map(|l| format!("{}:{}", l.file(), l.line())).unwrap_or_default();
                eprintln!("[panic] {loc}");
            }));
            let tier = Tier::parse(&args[3]);
            let p = |i: usize| args[i].parse::<u64>().expect("numeric worker arg");
            report::worker_main(&spec, run, cands, tier, p(4), p(5), p(6), p(7), p(8));
            let _ = std::fs::remove_dir_all(report::scratch_root());
        }
        "replay" => {
            let code = report::replay_main(&spec, run, std::path::Path::new(&args[3]));
            let _ = std::fs::remove_dir_all(report::scratch_root());
            std::process::exit(code);
        }
        "run" => {
            // one run by index, printed in full (debugging aid)
            let idx: u64 = args[3].parse().expect("run index");
            let seed: u64 = std::env::var("VERIF_SEED").ok().and_then(|s| s.parse().ok()).unwrap_or(report::DEFAULT_SEED);
            let rs = report::run_seed(seed, spec.prop, idx);
            let out = run(spec.prop, Tier::Quick, rs, &serde_json::Value::Null);
            println!("{}", serde_json::to_string_pretty(&out.to_json(idx, rs)).unwrap());
            let _ = std::fs::remove_dir_all(report::scratch_root());
        }
        "dbg" => {
            // qesim dbg <PROP> <replay-file> "<sql>" [nodes] [initiator]
            let doc: serde_json::Value = serde_json::from_str(&std::fs::read_to_string(&args[3]).expect("replay file")).expect("json");
            let rs = doc["run_seed"].as_u64().unwrap();
            let sql = args.get(4).cloned().unwrap_or_else(|| doc["context"]["sql"].as_str().unwrap_or("").to_string());
            let nodes = args.get(5).and_then(|s| s.parse().ok()).unwrap_or(doc["context"]["nodes"].as_u64().unwrap_or(1) as usize);
            let init = args.get(6).and_then(|s| s.parse().ok()).unwrap_or(doc["context"]["initiator"].as_u64().unwrap_or(0) as usize);
            match prop {
                "C04" => exec::debug(exec::Prop::C04, &doc, args.get(4).map(|s| s.as_str())),
                "C07" => exec::debug(exec::Prop::C07, &doc, args.get(4).map(|s| s.as_str())),
                "C08" => exec::debug(exec::Prop::C08, &doc, args.get(4).map(|s| s.as_str())),
                _ => cluster::runs::debug_sql(rs, &doc["overrides"], &sql, nodes, init),
            }
            if std::env::var("VERIF_KEEP_SCRATCH").is_ok() {
                eprintln!("scratch kept at {}", report::scratch_root().display());
                return;
            }
            let _ = std::fs::remove_dir_all(report::scratch_root());
        }
        _ => {
            eprintln!("unknown command {cmd}");
            std::process::exit(2);
        }
    }
}
