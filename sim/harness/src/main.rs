fn main() { println!("qesim skeleton"); }
