mod cluster;
mod kit;

use kit::report::{self, CheckSpec, RunFn, Tier};

fn registry(prop: &str) -> Option<(CheckSpec, RunFn, fn(&serde_json::Value, &report::Violation) -> Vec<serde_json::Value>)> {
    match prop {
        "C09" => Some((
            CheckSpec {
                prop: "C09",
                engine: "cluster-sim",
                level: "exploration",
                rule: "one run = one seeded world (1-3 generated tables, Parquet layout, 1-8 nodes with per-node copies under different mounts/listing orders) x 10 generated statements, each forced-distributed through the real coordinator over a simulated FragmentTransport and compared with the single-node answer; a case is non-trivial when the single node answered and the cluster did not refuse; distinct = distinct (merge shape, family, cluster size, fragments sent, statement text)",
                runs_quick: 320,
                runs_thorough: 20000,
                secs_quick: 50,
                secs_thorough: 900,
                gate_runs: 24,
                real: &["plan_distributed", "plan_gather", "execute_any_distributed", "scatter/merge/unify", "enumerate_parquet", "assign_lpt", "ShardedParquetTable", "execute_fragment", "encode_ipc/decode_ipc", "ExecutionContext::sql", "FragmentRequest serde"],
                stub: &["HTTP framing and hyper (bypassed at this layer; the wire layer covers them)", "SimTransport replaces HttpTransport"],
                assumptions: &["the single-node answer over the same Parquet files is the oracle; a semantics bug shared by both sides is invisible by construction", "generated DOUBLE values are dyadic so sums are exact in any order"],
                expected_probes: &["idle_node", "empty_answer"],
            },
            cluster::runs::run_c09,
            cluster::runs::shrink_candidates,
        )),
        _ => None,
    }
}

fn main() {
    let args: Vec<String> = std::env::args().collect();
    if args.len() < 3 {
        eprintln!("usage: qesim check <PROP> quick|thorough | worker ... | replay <PROP> <file> | run <PROP> <seed-index>");
        std::process::exit(2);
    }
    let cmd = args[1].as_str();
    let prop = args[2].as_str();
    let Some((spec, run, cands)) = registry(prop) else {
        eprintln!("unknown property {prop}");
        std::process::exit(2);
    };
    match cmd {
        "check" => {
            let tier = Tier::parse(args.get(3).map(|s| s.as_str()).unwrap_or("quick"));
            std::process::exit(report::check_main(&spec, tier));
        }
        "worker" => {
            let tier = Tier::parse(&args[3]);
            let p = |i: usize| args[i].parse::<u64>().expect("numeric worker arg");
            report::worker_main(&spec, run, cands, tier, p(4), p(5), p(6), p(7), p(8));
            let _ = std::fs::remove_dir_all(report::scratch_root());
        }
        "replay" => {
            let code = report::replay_main(&spec, run, std::path::Path::new(&args[3]));
            let _ = std::fs::remove_dir_all(report::scratch_root());
            std::process::exit(code);
        }
        "run" => {
            // one run by index, printed in full (debugging aid)
            let idx: u64 = args[3].parse().expect("run index");
            let seed: u64 = std::env::var("VERIF_SEED").ok().and_then(|s| s.parse().ok()).unwrap_or(report::DEFAULT_SEED);
            let rs = report::run_seed(seed, spec.prop, idx);
            let out = run(spec.prop, Tier::Quick, rs, &serde_json::Value::Null);
            println!("{}", serde_json::to_string_pretty(&out.to_json(idx, rs)).unwrap());
            let _ = std::fs::remove_dir_all(report::scratch_root());
        }
        "dbg" => {
            // qesim dbg <PROP> <replay-file> "<sql>" [nodes] [initiator]
            let doc: serde_json::Value = serde_json::from_str(&std::fs::read_to_string(&args[3]).expect("replay file")).expect("json");
            let rs = doc["run_seed"].as_u64().unwrap();
            let sql = args.get(4).cloned().unwrap_or_else(|| doc["context"]["sql"].as_str().unwrap_or("").to_string());
            let nodes = args.get(5).and_then(|s| s.parse().ok()).unwrap_or(doc["context"]["nodes"].as_u64().unwrap_or(1) as usize);
            let init = args.get(6).and_then(|s| s.parse().ok()).unwrap_or(doc["context"]["initiator"].as_u64().unwrap_or(0) as usize);
            cluster::runs::debug_sql(rs, &doc["overrides"], &sql, nodes, init);
            let _ = std::fs::remove_dir_all(report::scratch_root());
        }
        _ => {
            eprintln!("unknown command {cmd}");
            std::process::exit(2);
        }
    }
}
