//! stream-sim: one client against a scripted, byte-exact, faulty peer.
//!   C16: `distributed::http_client::request` through the network seam on a paused clock.
//!   C41: the metastore's chunked-transfer decoder, directly and through `http_get`
//!        over real loopback with a scripted peer thread.

use crate::kit::report::{RunOut, Tier, Violation};
use crate::kit::rng::{fnv, Rng};
use parking_lot::Mutex;
use query_engine::verif::net::{ConnectFuture, Connector, SimConn};
use serde_json::{json, Value};
use std::sync::atomic::{AtomicBool, Ordering};
use std::sync::Arc;
use std::time::Duration;
use tokio::io::{AsyncReadExt, AsyncWriteExt};

fn viol(clause: &str, symptom: &str, features: Vec<String>, detail: String, context: Value) -> Violation {
    Violation { clause: clause.into(), symptom: symptom.into(), features, detail, overrides: json!({}), context }
}

#[derive(Clone, Debug)]
pub enum Act {
    Send(Vec<u8>),
    Sleep(u64),
    Close,
    Reset,
    Stall,
}

struct ScriptedPeer {
    script: Mutex<Vec<Act>>,
    refuse: bool,
}

impl Connector for ScriptedPeer {
    fn connect(&self, _addr: &str) -> ConnectFuture {
        let script = self.script.lock().clone();
        let refuse = self.refuse;
        Box::pin(async move {
            if refuse {
                return Err(std::io::Error::new(std::io::ErrorKind::ConnectionRefused, "simulated refusal"));
            }
            let (client, mut server) = tokio::io::duplex(1 << 20);
            let reset = Arc::new(AtomicBool::new(false));
            let r2 = reset.clone();
            tokio::spawn(async move {
                // read the request head like a server would
                let mut buf = vec![0u8; 4096];
                let mut seen = Vec::new();
                loop {
                    match server.read(&mut buf).await {
                        Ok(0) | Err(_) => break,
                        Ok(n) => {
                            seen.extend_from_slice(&buf[..n]);
                            if seen.windows(4).any(|w| w == b"\r\n\r\n") {
                                break;
                            }
                        }
                    }
                }
                for a in script {
                    match a {
                        Act::Send(b) => {
                            if server.write_all(&b).await.is_err() {
                                return;
                            }
                            let _ = server.flush().await;
                        }
                        Act::Sleep(ms) => tokio::time::sleep(Duration::from_millis(ms)).await,
                        Act::Close => {
                            let _ = server.shutdown().await;
                            return;
                        }
                        Act::Reset => {
                            r2.store(true, Ordering::SeqCst);
                            return; // dropping the pipe end wakes the reader
                        }
                        Act::Stall => {
                            // keep the connection open, send nothing, for ever
                            tokio::time::sleep(Duration::from_secs(10_000_000)).await;
                        }
                    }
                }
                let _ = server.shutdown().await;
            });
            Ok(SimConn { io: client, reset })
        })
    }
}

/// A well-formed response and what it means.
struct Resp {
    bytes: Vec<u8>,
    header_len: usize,
    status: u16,
    declared: Option<usize>,
    body: Vec<u8>,
    /// the Content-Length header carries something that is not a length (overflowing
    /// digits, a sign, letters): the client may treat it as absent or reject the response
    cl_unparsable: bool,
}

fn gen_response(rng: &mut Rng) -> Resp {
    let status = *rng.pick(&[200u16, 200, 200, 204, 400, 404, 500, 503]);
    let reason = *rng.pick(&["OK", "Bad Request", "Service Unavailable", "No Content", "X"]);
    let blen = match rng.below(6) {
        0 => 0,
        1 => 1,
        2 => rng.usize(16),
        3 => rng.usize(300),
        _ => rng.usize(2000),
    };
    let mut body: Vec<u8> = (0..blen).map(|_| rng.below(256) as u8).collect();
    if rng.chance(1, 3) {
        // bodies that themselves contain header terminators and status-like text
        let marker = b"\r\n\r\nHTTP/1.1 500 X\r\n\r\n";
        for (i, b) in marker.iter().enumerate() {
            if i < body.len() {
                body[i] = *b;
            }
        }
    }
    let with_cl = rng.chance(3, 4);
    let mut head = format!("HTTP/1.1 {status} {reason}\r\n");
    let mut hdrs: Vec<String> = vec!["Content-Type: application/vnd.apache.arrow.stream".into(), format!("X-QE-Rows: {}", rng.below(1000)), "Connection: close".into()];
    // one declared length in five does not tell the truth: larger than the body (by a few
    // bytes, or near the integer limits, where length arithmetic overflows), smaller, or not
    // a length at all. Drawn from a forked stream.
    let mut declared: Option<usize> = if with_cl { Some(blen) } else { None };
    let mut cl_text = blen.to_string();
    let mut cl_unparsable = false;
    let mut lr = rng.fork(0xc1e7);
    if with_cl && lr.chance(1, 5) {
        match lr.below(9) {
            0 => declared = Some(blen + 1 + lr.usize(10)),
            1 => declared = Some(blen.saturating_sub(1 + lr.usize(5))),
            2 => declared = Some(1usize << 32),
            3 => declared = Some(1usize << 62),
            4 => declared = Some(usize::MAX),
            5 => declared = Some(usize::MAX - lr.usize(200)),
            6 => {
                cl_text = "99999999999999999999999".into();
                cl_unparsable = true;
            }
            7 => {
                cl_text = "-1".into();
                cl_unparsable = true;
            }
            _ => {
                cl_text = "12abc".into();
                cl_unparsable = true;
            }
        }
        if !cl_unparsable {
            cl_text = declared.unwrap().to_string();
        } else {
            declared = None;
        }
    }
    if with_cl {
        let name = *rng.pick(&["Content-Length", "content-length", "CONTENT-LENGTH", "Content-length"]);
        hdrs.push(format!("{name}: {cl_text}"));
        if rng.chance(1, 8) {
            hdrs.push(format!("{name}: {cl_text}")); // an identical duplicate
        }
    }
    rng.shuffle(&mut hdrs);
    for h in hdrs {
        head.push_str(&h);
        head.push_str("\r\n");
    }
    head.push_str("\r\n");
    let header_len = head.len();
    let mut bytes = head.into_bytes();
    bytes.extend_from_slice(&body);
    Resp { bytes, header_len, status, declared, body, cl_unparsable }
}

/// What the client must return for `delivered` bytes followed by `ending`.
#[derive(Debug, PartialEq)]
enum Expect {
    /// status and the complete body
    Ok(u16),
    Err,
    TimedOut,
    /// no length could be declared: either reading (Ok with what arrived, or Err) is
    /// acceptable; a panic or a wait past the timeout is not
    Either,
}

fn model(r: &Resp, delivered: usize, ending: &str) -> Expect {
    match ending {
        "stall" => return Expect::TimedOut,
        "reset" => return Expect::Err,
        _ => {}
    }
    if delivered < r.header_len {
        // the terminator is the last four bytes of the head: any shorter prefix has none
        // (the head itself contains no earlier blank line)
        return Expect::Err;
    }
    let body_delivered = delivered - r.header_len;
    if r.cl_unparsable {
        return Expect::Either;
    }
    match r.declared {
        Some(n) if body_delivered < n => Expect::Err,
        _ => Expect::Ok(r.status),
    }
}

pub fn run_c16(_p: &str, tier: Tier, run_seed: u64, _ov: &Value) -> RunOut {
    let mut rng = Rng::new(run_seed);
    let mut out = RunOut::default();
    let mut log: Vec<String> = Vec::new();
    let rt = tokio::runtime::Builder::new_current_thread()
        .enable_all()
        .start_paused(true)
        .rng_seed(tokio::runtime::RngSeed::from_bytes(&run_seed.to_le_bytes()))
        .build()
        .expect("runtime");
    let n_resp = if tier == Tier::Thorough { 6 } else { 3 };
    let t_start = std::time::Instant::now();
    let mut sim_ms = 0u64;
    rt.block_on(async {
        for ri in 0..n_resp {
            let r = gen_response(&mut rng);
            let len = r.bytes.len();
            // every truncation offset (enumerated) for responses up to 2 KiB, sampled above
            let mut cases: Vec<(usize, &'static str)> = Vec::new();
            let step = if len <= 2048 { 1 } else { len / 1024 + 1 };
            let mut k = 0;
            while k <= len {
                cases.push((k, "close"));
                k += step;
            }
            cases.push((len, "close"));
            for _ in 0..12 {
                let k = rng.usize(len + 1);
                cases.push((k, *rng.pick(&["reset", "stall", "stall", "reset"])));
            }
            for b in [0usize, r.header_len.saturating_sub(1), r.header_len, r.header_len + 1, len.saturating_sub(1)] {
                cases.push((b.min(len), "stall"));
            }
            for (k, ending) in cases {
                // segmentation: one piece, byte-by-byte near the cut, or random pieces with delays
                let mut script: Vec<Act> = Vec::new();
                let delivered = &r.bytes[..k];
                match rng.below(3) {
                    0 => script.push(Act::Send(delivered.to_vec())),
                    1 => {
                        let mut p = 0;
                        while p < delivered.len() {
                            let n = 1 + rng.usize(97);
                            let q = (p + n).min(delivered.len());
                            script.push(Act::Send(delivered[p..q].to_vec()));
                            if rng.chance(1, 3) {
                                script.push(Act::Sleep(rng.below(2000)));
                            }
                            p = q;
                        }
                    }
                    _ => {
                        let cut = rng.usize(delivered.len() + 1);
                        script.push(Act::Send(delivered[..cut].to_vec()));
                        script.push(Act::Sleep(1 + rng.below(500)));
                        script.push(Act::Send(delivered[cut..].to_vec()));
                    }
                }
                script.push(match ending {
                    "close" => Act::Close,
                    "reset" => Act::Reset,
                    _ => Act::Stall,
                });
                let timeout = *rng.pick(&[Duration::from_secs(1), Duration::from_secs(30), Duration::from_secs(600)]);
                // keep scripted sleeps below the timeout unless the ending is a stall
                let total_sleep: u64 = script.iter().map(|a| if let Act::Sleep(ms) = a { *ms } else { 0 }).sum();
                let timeout = if ending != "stall" && Duration::from_millis(total_sleep + 10) >= timeout { Duration::from_secs(600) } else { timeout };
                query_engine::verif::net::set_connector(Some(Arc::new(ScriptedPeer { script: Mutex::new(script), refuse: false })));
                let t0 = tokio::time::Instant::now();
                use futures::FutureExt;
                let res = std::panic::AssertUnwindSafe(query_engine::distributed::http_client::request("10.9.0.1:7777", "POST", "/fragment", Some("application/json"), Some(b"{}"), timeout))
                    .catch_unwind()
                    .await;
                let elapsed = t0.elapsed();
                sim_ms += elapsed.as_millis() as u64;
                let want = model(&r, k, ending);
                out.bump(&format!("fault.{}.armed", if ending == "close" && k == len { "none" } else if ending == "close" { "truncate" } else { ending }));
                out.bump(&format!("fault.{}.fired", if ending == "close" && k == len { "none" } else if ending == "close" { "truncate" } else { ending }));
                let feats = |extra: &str| vec![format!("ending:{ending}"), format!("declared:{}", r.declared.is_some()), extra.to_string()];
                let ctxj = json!({"response_len": len, "header_len": r.header_len, "declared": r.declared, "delivered": k, "ending": ending, "status": r.status,
                                  "head": String::from_utf8_lossy(&r.bytes[..r.header_len]).to_string()});
                let tag;
                match res {
                    Err(_) => {
                        tag = "panic";
                        out.violations.push(viol("client-never-panics", "panic", feats("panic"), format!("http_client panicked on {k}/{len} bytes then {ending}"), ctxj));
                    }
                    Ok(Ok(resp)) => {
                        tag = "ok";
                        match want {
                            Expect::Ok(st) => {
                                // the body bytes that were actually delivered before the close
                                let delivered_body = &r.body[..k - r.header_len];
                                let body_ok = match r.declared {
                                    // declared: exactly the declared bytes, or everything delivered
                                    Some(n) => resp.body[..] == delivered_body[..n] || resp.body[..] == *delivered_body,
                                    // undeclared: the body is everything up to EOF
                                    None => resp.body[..] == *delivered_body,
                                };
                                if resp.status != st || !body_ok {
                                    out.violations.push(viol("framed-or-rejected", "wrong-status-or-body", feats("complete"), format!("complete response: got status {} body {} bytes, sent status {st} body {} bytes", resp.status, resp.body.len(), r.body.len()), ctxj));
                                }
                                if k == len {
                                    out.bump("probe.complete_response_accepted");
                                }
                            }
                            Expect::Err => {
                                let sym = if k >= r.header_len { "short-body-accepted" } else { "headerless-response-accepted" };
                                out.violations.push(viol("framed-or-rejected", sym, feats("truncated"), format!("{k} of {len} bytes delivered ({ending}); Content-Length {:?}, body bytes delivered {}; client returned Ok(status {}, body {} bytes)", r.declared, k.saturating_sub(r.header_len), resp.status, resp.body.len()), ctxj));
                            }
                            Expect::TimedOut => {
                                out.violations.push(viol("never-hangs-past-timeout", "ok-from-a-stalled-peer", feats("stall"), format!("peer stalled after {k} bytes but the client returned Ok"), ctxj));
                            }
                            Expect::Either => out.bump("probe.unparsable_length_answered"),
                        }
                    }
                    Ok(Err(e)) => {
                        tag = "err";
                        match want {
                            Expect::Ok(_) => out.violations.push(viol("framed-or-rejected", "complete-response-rejected", feats("complete"), format!("complete response ({k}/{len} bytes, Content-Length {:?}) rejected: {e}", r.declared), ctxj)),
                            Expect::Err => {
                                if k >= r.header_len {
                                    out.bump("probe.short_body_rejected");
                                }
                            }
                            Expect::TimedOut => {
                                if e.kind() != std::io::ErrorKind::TimedOut || elapsed != timeout {
                                    out.violations.push(viol("never-hangs-past-timeout", "timeout-not-exact", feats("stall"), format!("stalled peer: error kind {:?} after {:?} (timeout {:?})", e.kind(), elapsed, timeout), ctxj));
                                } else {
                                    out.bump("probe.timeout_fired_exactly");
                                }
                            }
                            Expect::Either => out.bump("probe.unparsable_length_rejected"),
                        }
                    }
                }
                if elapsed > timeout {
                    out.violations.push(viol("never-hangs-past-timeout", "returned-after-timeout", feats("late"), format!("returned after {:?} with timeout {:?}", elapsed, timeout), json!({})));
                }
                out.case_hashes.push(fnv(format!("{}|{}|{}|{}|{tag}", r.declared.is_some(), (k.min(r.header_len + 2)), ending, k == len).as_bytes()) ^ (ri as u64) << 50 ^ run_seed.rotate_left(7));
                log.push(format!("{ri} {k}/{len} {ending} {tag} {}", elapsed.as_millis()));
            }
        }
        query_engine::verif::net::set_connector(None);
    });
    let _ = t_start;
    out.sim_ms = sim_ms;
    out.sample = Some(json!({"log_tail": log.iter().rev().take(4).collect::<Vec<_>>()}));
    out.log_hash = fnv(log.join("\n").as_bytes());
    // one violation per class is enough per run
    let mut seen = std::collections::BTreeSet::new();
    out.violations.retain(|v| seen.insert((v.clause.clone(), v.symptom.clone())));
    out
}

pub fn no_shrink(_ov: &Value, _v: &Violation) -> Vec<Value> {
    vec![]
}

// ---------------------------------------------------------------------------------- C41

fn chunk(body: &[u8], rng: &mut Rng, extensions: bool) -> Vec<u8> {
    let mut out = Vec::new();
    let mut p = 0;
    while p < body.len() {
        let cap = *rng.pick(&[1usize, 7, 64, 5000]);
        let n = 1 + rng.usize((body.len() - p).min(cap));
        let q = (p + n).min(body.len());
        let size = q - p;
        let hex = if rng.coin() { format!("{size:x}") } else { format!("{size:X}") };
        // chunk-size = 1*HEXDIG: leading zeros are legal, and the size line has no length limit
        if rng.chance(1, 5) {
            out.extend_from_slice("0".repeat(1 + rng.usize(24)).as_bytes());
        }
        out.extend_from_slice(hex.as_bytes());
        if extensions && rng.chance(1, 2) {
            push_extension(&mut out, rng);
        }
        out.extend_from_slice(b"\r\n");
        out.extend_from_slice(&body[p..q]);
        out.extend_from_slice(b"\r\n");
        p = q;
    }
    // the last chunk may be zero-padded and carry extensions too
    if rng.chance(1, 6) {
        out.extend_from_slice("0".repeat(rng.usize(20)).as_bytes());
    }
    out.extend_from_slice(b"0");
    if extensions && rng.chance(1, 3) {
        push_extension(&mut out, rng);
    }
    out.extend_from_slice(b"\r\n");
    if rng.chance(1, 4) {
        out.extend_from_slice(b"X-Trailer: 1\r\n");
    }
    out.extend_from_slice(b"\r\n");
    out
}

/// One to three chunk extensions of seeded length: bare names, name=token, name="quoted
/// string" (up to ~60 bytes, never containing CR or LF).
fn push_extension(out: &mut Vec<u8>, rng: &mut Rng) {
    for _ in 0..1 + rng.usize(3) {
        match rng.below(4) {
            0 => out.extend_from_slice(*rng.pick(&[&b";ext=1"[..], b";a=b;c", b"; name=\"v\""])),
            1 => {
                out.extend_from_slice(b";n");
                out.extend_from_slice("x".repeat(rng.usize(40)).as_bytes());
            }
            2 => {
                out.extend_from_slice(b";sig=\"");
                out.extend_from_slice("chunk 0 of lakehouse ".repeat(rng.usize(3)).as_bytes());
                out.extend_from_slice(b"\"");
            }
            _ => {
                out.extend_from_slice(b";k=");
                out.extend_from_slice("0123456789abcdef".repeat(1 + rng.usize(3)).as_bytes());
            }
        }
    }
}

pub fn run_c41(_p: &str, tier: Tier, run_seed: u64, _ov: &Value) -> RunOut {
    use query_engine::metastore::gravitino::verif::{dechunk, http_get};
    let mut rng = Rng::new(run_seed);
    let mut out = RunOut::default();
    let mut log: Vec<String> = Vec::new();
    let call = |b: &[u8]| -> Result<Option<Vec<u8>>, String> {
        std::panic::catch_unwind(|| dechunk(b)).map_err(|p| p.downcast_ref::<String>().cloned().or_else(|| p.downcast_ref::<&str>().map(|s| s.to_string())).unwrap_or_default())
    };
    let n_bodies = if tier == Tier::Thorough { 12 } else { 5 };
    for bi in 0..n_bodies {
        let blen = match rng.below(5) {
            0 => 0,
            1 => 1,
            2 => rng.usize(40),
            _ => rng.usize(700),
        };
        let body: Vec<u8> = (0..blen).map(|_| if rng.chance(1, 6) { *rng.pick(&[b'\r', b'\n', b'0', b';']) } else { rng.below(256) as u8 }).collect();
        let ext = rng.coin();
        let framed = chunk(&body, &mut rng, ext);
        // (1) well-formed -> exactly the body
        match call(&framed) {
            Err(p) => out.violations.push(viol("decoder-never-panics", "panic", vec![format!("extensions:{ext}")], format!("dechunk panicked on a well-formed body: {p}"), json!({"framed": String::from_utf8_lossy(&framed)}))),
            Ok(Some(d)) if d == body => out.bump(if ext { "probe.extensions_decoded" } else { "probe.plain_chunks_decoded" }),
            Ok(got) => out.violations.push(viol("well-formed-decodes-to-body", if got.is_none() { "well-formed-rejected" } else { "wrong-body" }, vec![format!("extensions:{ext}")],
                format!("{} chunked bytes for a {}-byte body (extensions={ext}) decoded to {:?}", framed.len(), body.len(), got.map(|g| g.len())), json!({"framed_head": String::from_utf8_lossy(&framed[..framed.len().min(80)])}))),
        }
        out.case_hashes.push(fnv(&framed) ^ 1);
        log.push(format!("{bi} wf {} {}", framed.len(), ext));
        // (2) every truncation of the framing that cuts before the terminal chunk's CRLF
        //     must be rejected (never a shorter body), and must not panic
        let term = framed.len();
        for k in 0..term {
            let cut = &framed[..k];
            out.bump("fault.truncate.armed");
            match call(cut) {
                Err(p) => {
                    out.violations.push(viol("decoder-never-panics", "panic", vec!["truncated".into()], format!("dechunk panicked on a {k}-byte prefix: {p}"), json!({})));
                    break;
                }
                Ok(Some(d)) => {
                    // a prefix may legitimately decode only if it already contains the complete
                    // terminal chunk ("0\r\n"); trailers after it are optional
                    let complete = d == body;
                    if !complete {
                        out.violations.push(viol("malformed-framing-rejected", "truncated-framing-accepted", vec!["truncated".into()], format!("a {k}-byte prefix of {term} framed bytes decoded to {} bytes (body is {})", d.len(), body.len()), json!({})));
                        break;
                    }
                }
                Ok(None) => {}
            }
            out.bump("fault.truncate.fired");
        }
        // (3) malformed framing
        let mut bad: Vec<(&str, Vec<u8>)> = Vec::new();
        if !body.is_empty() {
            // data not followed by CRLF
            let mut m = Vec::new();
            m.extend_from_slice(format!("{:x}\r\n", body.len()).as_bytes());
            m.extend_from_slice(&body);
            m.extend_from_slice(b"XY0\r\n\r\n");
            bad.push(("missing-crlf-after-data", m));
        }
        bad.push(("non-hex-size", b"zz\r\nabc\r\n0\r\n\r\n".to_vec()));
        bad.push(("negative-size", b"-5\r\nhello\r\n0\r\n\r\n".to_vec()));
        bad.push(("empty-size", b"\r\nhello\r\n0\r\n\r\n".to_vec()));
        bad.push(("size-larger-than-remainder", format!("{:x}\r\nshort\r\n0\r\n\r\n", 5000 + rng.usize(1000)).into_bytes()));
        for huge in ["ffffffffffffffff", "fffffffffffffffe", "7fffffffffffffff", "ffffffffffffffffff", "100000000000000000"] {
            bad.push(("huge-hex-size", format!("{huge}\r\nx\r\n0\r\n\r\n").into_bytes()));
        }
        // a size line is 1*HEXDIG [;ext]: one edit of an otherwise well-formed framing that
        // leaves that grammar (what integer parsers commonly tolerate: a sign, a radix
        // prefix, a digit separator, an inner blank, a non-ASCII digit), on the data chunk
        // or on the terminating chunk
        {
            let mut gr = rng.fork(0x512e);
            let data: Vec<u8> = (0..1 + gr.usize(40)).map(|_| b'a' + gr.below(26) as u8).collect();
            let hex = format!("{:x}", data.len());
            let ext = if gr.coin() { ";a=b" } else { "" };
            let variants: Vec<(&str, String, String)> = vec![
                ("plus-signed-size", format!("+{hex}"), "0".into()),
                ("plus-signed-terminator", hex.clone(), "+0".into()),
                ("minus-zero-terminator", hex.clone(), "-0".into()),
                ("radix-prefixed-size", format!("0x{hex}"), "0".into()),
                ("separator-in-size", format!("0_{hex}"), "0".into()),
                ("blank-inside-size", format!("0 {hex}"), "0".into()),
                ("non-ascii-digit-size", "\u{0665}".into(), "0".into()),
                ("double-signed-size", format!("+-{hex}"), "0".into()),
            ];
            for (kind, size, term) in variants {
                let mut m = Vec::new();
                m.extend_from_slice(format!("{size}{ext}\r\n").as_bytes());
                m.extend_from_slice(&data);
                m.extend_from_slice(format!("\r\n{term}\r\n\r\n").as_bytes());
                bad.push((kind, m));
            }
        }
        for (kind, m) in bad {
            out.bump(&format!("fault.{kind}.armed"));
            match call(&m) {
                Err(p) => out.violations.push(viol("decoder-never-panics", "panic", vec![format!("malformed:{kind}")], format!("dechunk panicked on {kind}: {p}"), json!({"input": String::from_utf8_lossy(&m)}))),
                Ok(Some(d)) => out.violations.push(viol("malformed-framing-rejected", "malformed-accepted", vec![format!("malformed:{kind}")], format!("{kind} decoded to {} bytes", d.len()), json!({"input": String::from_utf8_lossy(&m[..m.len().min(80)])}))),
                Ok(None) => out.bump(&format!("fault.{kind}.fired")),
            }
            out.case_hashes.push(fnv(&m));
        }
        // (4) arbitrary byte strings: no panic
        for _ in 0..40 {
            let n = rng.usize(60);
            let alphabet = b"0123456789abcdefF;\r\n x=";
            let junk: Vec<u8> = (0..n).map(|_| if rng.chance(3, 4) { alphabet[rng.usize(alphabet.len())] } else { rng.below(256) as u8 }).collect();
            if let Err(p) = call(&junk) {
                out.violations.push(viol("decoder-never-panics", "panic", vec!["arbitrary".into()], format!("dechunk panicked on arbitrary bytes: {p}"), json!({"input": format!("{junk:?}")})));
            }
            out.bump("n.arbitrary_inputs");
        }
    }
    // (5) through http_get over real loopback, a scripted peer thread (segmentation and
    //     timing cannot matter: http_get reads to EOF before it looks at a byte)
    // every wire case costs a loopback connection that lingers in TIME_WAIT: the thorough
    // tier's 20 000 runs would exhaust the ephemeral ports, so only one run in eight goes
    // through the wire there (about 10 000 connections)
    let n_wire = if tier == Tier::Thorough {
        if rng.fork(0x317e).chance(1, 8) {
            4
        } else {
            0
        }
    } else {
        2
    };
    for wi in 0..n_wire {
        let body: Vec<u8> = (0..rng.usize(300)).map(|_| b'a' + rng.below(26) as u8).collect();
        let ext = rng.coin();
        let framed = chunk(&body, &mut rng, ext);
        let truncate_at = if rng.coin() { None } else { Some(rng.usize(framed.len())) };
        let te = *rng.pick(&["Transfer-Encoding: chunked", "transfer-encoding: chunked", "Transfer-Encoding: Chunked"]);
        let mut resp = format!("HTTP/1.1 200 OK\r\nContent-Type: application/json\r\n{te}\r\nConnection: close\r\n\r\n").into_bytes();
        let payload = match truncate_at {
            Some(k) => framed[..k].to_vec(),
            None => framed.clone(),
        };
        resp.extend_from_slice(&payload);
        let Ok(listener) = std::net::TcpListener::bind("127.0.0.1:0") else {
            // no port to be had: not a verdict about the decoder
            out.bump("n.wire_case_skipped_no_loopback_port");
            continue;
        };
        let addr = listener.local_addr().unwrap();
        let pieces: Vec<Vec<u8>> = {
            let mut v = Vec::new();
            let mut p = 0;
            while p < resp.len() {
                let q = (p + 1 + rng.usize(200)).min(resp.len());
                v.push(resp[p..q].to_vec());
                p = q;
            }
            v
        };
        let t = std::thread::spawn(move || {
            use std::io::{Read, Write};
            if let Ok((mut s, _)) = listener.accept() {
                let mut buf = [0u8; 2048];
                let _ = s.read(&mut buf);
                for p in pieces {
                    let _ = s.write_all(&p);
                    let _ = s.flush();
                }
            }
        });
        let got = std::panic::catch_unwind(|| http_get(&format!("http://{addr}"), "/api/x"));
        let _ = t.join();
        let complete = truncate_at.is_none();
        match got {
            Err(_) => out.violations.push(viol("decoder-never-panics", "panic", vec!["wire".into()], "http_get panicked".into(), json!({}))),
            Ok(Ok(b)) => {
                if b != body {
                    let sym = if complete { "wrong-body" } else { "truncated-framing-accepted" };
                    // a truncation that still contains the whole terminal chunk is complete
                    if !(b == body) {
                        out.violations.push(viol(if complete { "well-formed-decodes-to-body" } else { "malformed-framing-rejected" }, sym, vec!["wire".into(), format!("extensions:{ext}")], format!("http_get returned {} bytes for a {}-byte body (truncated at {:?})", b.len(), body.len(), truncate_at), json!({})));
                    }
                } else {
                    out.bump("probe.wire_roundtrip");
                }
            }
            Ok(Err(e)) => {
                if complete {
                    out.violations.push(viol("well-formed-decodes-to-body", "well-formed-rejected", vec!["wire".into(), format!("extensions:{ext}")], format!("http_get rejected a well-formed chunked response: {e}"), json!({})));
                } else {
                    out.bump("probe.wire_truncation_rejected");
                }
            }
        }
        log.push(format!("wire {wi} {} {:?}", framed.len(), truncate_at));
    }
    out.sample = Some(json!({"log_tail": log.iter().rev().take(3).collect::<Vec<_>>()}));
    out.log_hash = fnv(log.join("\n").as_bytes());
    let mut seen = std::collections::BTreeSet::new();
    out.violations.retain(|v| seen.insert((v.clause.clone(), v.symptom.clone(), v.features.clone())));
    out
}
