#!/usr/bin/env python3
"""Builds MANIFEST.json from the table below (single source of truth) and validates it
against /root/.vp/MANIFEST.schema.json when jsonschema is importable."""
import json, os, sys
HERE = os.path.dirname(os.path.abspath(__file__))

NA = {
 "C01": "pure input->rows relation; no schedule, clock, peer, fault or history in the statement, and the named oracle (DuckDB) is not installed; world-dependence of answers is carved out into C04/C07/C08/C09 which are claimed",
 "C02": "three-valued logic of a scalar expression is a pure function of operand values; nothing for a simulator to schedule or fault",
 "C03": "optimized==unoptimized is a pure metamorphic relation over (plan,data); statistics-driven effects are observed by C04's memory-vs-Parquet differential",
 "C05": "row-group pruning is a pure function of (footer statistics, predicate); its end-to-end effect is inside C04's layout space",
 "C06": "bit-equality of two evaluators over a batch is a pure differential of two functions; QE_COMPILE is an algorithm switch, not an environment",
 "C12": "assign_lpt is a pure function of (sizes, N); the 4/3 bound is decided by enumeration (another technique); exactly-one-owner is re-asserted inside C13",
 "C18": "soundness of footer-derived statistics is a function of the files alone",
 "C21": "aggregate NULL rules: pure per-group function of the input multiset; path invariance is C04/C07/C08",
 "C22": "join semantics: pure; build side / runtime filter are planner decisions, the filter is published as one Arc swap awaited by all probes (no interleaving exposes a half-built filter)",
 "C23": "subquery semantics: pure function of inputs",
 "C24": "set-operation multiset semantics: pure function of inputs",
 "C25": "ORDER BY/LIMIT/OFFSET semantics: pure; spilled/top-k invariance is C08, batching is C07",
 "C26": "window function definitions: pure function of the partition contents",
 "C27": "grouping sets: pure desugaring",
 "C28": "CTE reference scoping: pure binder/planner property (CTE cache is per planner, not shared across queries)",
 "C29": "no crash/hang on any SQL text: input fuzzing, no schedule/clock/fault in the statement",
 "C30": "result schema describes rows: pure function of the plan",
 "C31": "optimizer rule well-formedness: pure function of the plan",
 "C32": "join reorder avoids cross products: pure function of the join graph",
 "C36": "scalar functions: pure functions of their arguments",
 "C37": "vector encodings / SIMD kernels: pure functions of arrays",
 "C38": "vector distance formulas: pure functions",
 "C39": "TPC-H generator: one &mut self computation over one seeded StdRng, no shared state, clock or thread for a schedule to act on",
 "C40": "CLI output formatters: pure functions of the result set",
 "C42": "cpulist parsing: pure function of a string",
 "C43": "exact kNN plan equivalence: pure plan/data relation",
 "C44": "VALUES lowering: pure",
}

# property -> (engine, level, text, note, technique, design_ref)   filled in as checks are built
CHECKS = json.load(open(os.path.join(HERE, "checks.json"))) if os.path.exists(os.path.join(HERE, "checks.json")) else {}
PENDING_REASON = "not claimed: the simulator for this property is designed (DESIGN.md section 7) but no check is registered for it yet"

ALL = ["C%02d" % i for i in range(1, 46)]
man = {
 "version": 1,
 "setup_cmd": "./setup.sh",
 "hooks": {
   "guard": "--cfg qe_verif",
   "enable": "RUSTFLAGS='--cfg qe_verif --cfg tokio_unstable' via /verif/sim/.cargo/config.toml; the shadow manifest /verif/sim/qe/Cargo.toml ([lib] path=/repo/src/lib.rs) compiles /repo's working tree; --cfg qe_verif_shuttle only inside /verif/sched (standalone #[path] includes of memory.rs and membership.rs)",
   "baseline_off_cmd": "cd /repo && cargo nextest run --workspace --no-fail-fast --tool-config-file pb:/w/lib/nextest.toml --profile pb --test-threads 8 --offline || (cd /repo && cargo test --workspace --no-fail-fast --offline)",
   "source_commits": json.load(open(os.path.join(HERE, "hook_commits.json"))) if os.path.exists(os.path.join(HERE, "hook_commits.json")) else [],
   "add_only": True,
 },
 "engines": [
   {"name": "cluster-sim", "path": "sim/harness/src/cluster", "serves_properties": ["C09","C10","C11","C13","C14","C34","C35","C45"], "kind_free_text": "N real nodes in one process on a paused single-threaded tokio clock behind a fault-injecting in-memory network / FragmentTransport"},
   {"name": "stream-sim", "path": "sim/harness/src/stream", "serves_properties": ["C16","C41"], "kind_free_text": "real http client / chunk decoder against a scripted byte-exact faulty peer on simulated time"},
   {"name": "sched-sim", "path": "sched", "serves_properties": ["C33","C15"], "kind_free_text": "shuttle seeded schedulers over the real memory pool and membership sources, ledger/model oracle; Miri many-seeds for weak memory"},
   {"name": "fs-history-sim", "path": "sim/harness/src/fshist", "serves_properties": ["C17","C19","C20"], "kind_free_text": "seeded histories of writes/rewrites/commits/crashes on a scratch directory with controlled mtimes and parked builder/reader threads"},
   {"name": "exec-sim", "path": "sim/harness/src/exec", "serves_properties": ["C04","C07","C08"], "kind_free_text": "one engine under a seeded world: layout, batch/partition split, poll schedule, knobs, memory budget, spill I/O faults; differential against the baseline world"},
 ],
 "checks": [],
 "not_applicable": [],
 "notes": "See DESIGN.md. ./check <ID> quick|thorough ; exit 0 held / 1 VIOLATION / 2 harness error. known_findings.json lists recorded genuine defects.",
}
for pid in ALL:
    if pid in CHECKS:
        c = CHECKS[pid]
        man["checks"].append({
          "property_id": pid,
          "quick_cmd": "./check %s quick" % pid,
          "thorough_cmd": "./check %s thorough" % pid,
          "evidence_file": "evidence/%s.json" % pid,
          "replay_cmd_template": "./check %s --replay {path}" % pid,
          "engine": c["engine"],
          "level_claimed": {"category": c["level"], "text": c["text"], "design_ref": c.get("design_ref", "DESIGN.md section 7, " + pid)},
          "level_note": c["note"],
          "technique": c["technique"],
        })
    else:
        man["not_applicable"].append({"property_id": pid, "reason": NA.get(pid, PENDING_REASON)})
json.dump(man, open(os.path.join(HERE, "MANIFEST.json"), "w"), indent=1)
try:
    import jsonschema
    jsonschema.validate(man, json.load(open("/root/.vp/MANIFEST.schema.json")))
    print("MANIFEST.json valid: %d checks, %d not_applicable" % (len(man["checks"]), len(man["not_applicable"])))
except ImportError:
    print("MANIFEST.json written (jsonschema not importable; not validated)")
