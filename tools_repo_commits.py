#!/usr/bin/env python3
"""Regenerate hook_commits.json and the `fixed` records of known_findings.json from
/repo's git log (commit ids change when the history is tidied, subjects do not)."""
import json, subprocess, os
HERE = os.path.dirname(os.path.abspath(__file__))
log = subprocess.check_output(["git", "-C", "/repo", "log", "--format=%h\t%s", "--reverse", "204cd01..HEAD"], text=True).strip().splitlines()
commits = [l.split("\t", 1) for l in log]
hooks = [f"{h} {s}" for h, s in commits if s.startswith("verif hook")]
json.dump(hooks, open(os.path.join(HERE, "hook_commits.json"), "w"), indent=1)
PROP = [
 ("empty local shard result lost its schema", "C09", "forced-distributed plain select whose only active shard is the initiator's own failed with 'no shard returned a schema' when the filter matched nothing"),
 ("drained only partition 0", "C07", "a twice-referenced CTE over a 1500-row table answered 1500 / 500 / 250 joined rows for 1 / 3 / 6 input batches (run_subquery_blocking and DelimJoinExec executed partition 0 only)"),
 ("three-valued (Kleene) logic", "C04", "NULL OR TRUE evaluated to NULL in the interpreter and dropped the row; the same rows answered differently from memory, from Parquet and from shards"),
 ("merged the NULL key with the integer key -1", "C04", "GROUP BY over a nullable integer key reported the rows of NULL and of -1 as one group on the perfect-hash path (u64::MAX is both the NULL marker and -1)"),
 ("rehash dropped the group whose keys are all NULL", "C07", "a multi-column GROUP BY lost the (NULL, NULL) group when a later row introduced a new key value and the perfect-hash table was re-strided"),
 ("gather pruned away columns read only inside subquery", "C45", "a statement with a scalar / IN / EXISTS subquery in a projection or filter failed to bind over the gathered tables ('Column not found') or answered NULL"),
 ("MIN/MAX over an INTEGER (Int32) column failed", "C04", "MIN/MAX over an Int32 column answered from Parquet and failed with 'Aggregate Min with type Int32 not supported' from memory and on shards"),
 ("same-named Parquet files in different directories", "C11", "two data files with one name in different partition directories gave listing-order-dependent digests or equal digests with splits mapped to different files"),
 ("cut at an Arrow IPC message boundary", "C10", "a /fragment reply truncated at a message boundary or inside the end-of-stream marker was merged as a complete (partial) answer"),
 ("dense agg: null group keys unsupported", "C04", "GROUP BY a nullable integer key answered from memory and failed from Parquet with 'dense agg: null group keys unsupported'"),
 ("MIN/MAX over no non-NULL input returned a sentinel", "C04", "SELECT MAX(w) over an all-NULL column returned i64::MIN from memory and NULL from Parquet; AVG over Int32 failed from memory"),
 ("a join side that produces no batches lost its columns", "C04", "an outer join against a Parquet table without row groups failed with a column-count error or returned shifted columns, while the same empty table in memory joined correctly"),
 ("every NULL-keyed row in its own group", "C08", "a spilled (or non-fused) aggregation produced one output group per NULL-keyed row (join-key equality used for grouping)"),
 ("spilled ORDER BY ignored LIMIT", "C08", "ORDER BY .. LIMIT 3 under a small memory budget returned every row, in an order that ignored NULLS FIRST/LAST and key types"),
 ("all NULL vanished when its aggregates were NULL too", "C08", "the (NULL, .. NULL) group was missing with an unlimited budget and present under a small one when its aggregates were NULL/0"),
 ("accepted a body shorter than its Content-Length", "C16", "a 200 response whose body was cut before Content-Length bytes returned Ok with the short body"),
 ("chunked-transfer decoder panicked", "C41", "dechunk panicked on a chunk size near usize::MAX, rejected chunk extensions and accepted data not followed by CRLF"),
 ("dense direct aggregation answered 0", "C04", "SUM/AVG over a group whose values are all NULL answered 0 / NaN from Parquet (dense path) and NULL from memory"),
 ("modification time preserved was read through the old footer", "C19", "after replacing a Parquet file with its mtime restored every query failed with 'Invalid page header' or panicked (process-wide footer cache keyed on path+mtime)"),
 ("rewritten within the same second to the same length", "C19", "a same-length rewrite inside one second kept being served from the sidecar of the old rows (stamp held whole seconds)"),
 ("two derived tables exposing the same column name", "C04", "a join of two derived tables that both expose a column `id` resolved b.id and c.id to the same column (suffix matching on unrenamed inner names); which one depended on the join order, so memory and Parquet answered different rows"),
 ("sorted by a qualified group key failed at the merge stage", "C09", "`SELECT a.k, COUNT(*) FROM t a GROUP BY a.k ORDER BY a.k` answered on one node and failed forced-distributed with 'Column not found: qe_g0' (the merge ORDER BY named a column its projection had renamed)"),
 ("top-N over SELECT * (or unaliased qualified columns) failed to bind", "C09", "`SELECT * FROM t ORDER BY id` (and `SELECT a.s, b.k .. ORDER BY ..`) answered on one node and failed forced-distributed with 'Column not found: id': top-N partial fields arrive relation-qualified, the merge query uses output names"),
 ("mis-handled two output columns under one name", "C09", "two output columns under one name: the top-N merge failed to bind and the two-phase merge divided by the wrong partial column (formerly known finding R13); such statements are now refused by the exact planner and gathered"),
 ("semi and anti joins that output their build side kept one row per key", "C07", "EXISTS / NOT EXISTS over a join result: the semi join marked only the first build row per key (7 of 1987 rows), and which duplicate survived depended on the order build partitions arrived in, so the answer changed with the seeded interleaving (found by the deterministic virtual-partition tier)"),
 ("NULL in a dictionary-encoded join key matched the empty string", "C07", "a NULL join key carried as a null VALUE of a gathered dictionary read as '' and matched rows whose key is the empty string (EXISTS over an outer join kept NULL-key rows)"),
 ("morsel path does not implement were computed as COUNT", "C04", "COUNT_IF (and every other aggregate the morsel accumulators lack) answered COUNT(x) over Parquet and its real value over memory"),
 ("merging partial aggregate states dropped every state", "C07", "COUNT_IF / BOOL_AND / BOOL_OR / ANY_VALUE / bitwise / LISTAGG / ... partial states were dropped on merge: COUNT_IF returned 24 in a multi-batch multi-worker world and 52 from one batch"),
 ("GROUP BY a BOOLEAN column failed on the hash-aggregate path", "C04", "GROUP BY a Boolean key answered over Parquet (morsel path) and failed over memory and on the gather path with 'Group by type not supported: Boolean'"),
 ("over no non-NULL input answered TRUE / FALSE on the one-aggregate path", "C08", "`SELECT BOOL_OR(b) FROM t WHERE <nothing matches>` answered false with an unlimited budget and NULL under a memory limit (also over Parquet and with several workers: C04, C07)"),
 ("NULL string gathered from a small join build side became the empty string", "C04", "GROUP BY a string column of a small join build side put the NULL rows into the '' group over Parquet and kept a NULL group from memory (dictionary gather kept NULLs as valid keys to null values)"),
 ("interpreted predicate evaluator ordered -0.0 below", "C09", "`WHERE v >= 0.0` kept -0.0 rows on the compiled evaluator and dropped them on the interpreted one (arrow totalOrder): 65 rows on one node, 61 from a one-node cluster whose shard filters at the decoder (thorough tier; also C04 `v < 0.0`, `BETWEEN 0.0 AND ..`)"),
 ("aggregates over a dictionary-encoded column answered NULL", "C09", "a global MIN/MAX over a string column of a small join build side (dictionary-encoded) answered NULL, the one-aggregate path failed; on a shard the sharded table becomes the small build side, so the distributed answer differed from the single-node one (thorough tier)"),
 ("group with a BOOLEAN key column vanished with its NULL aggregates", "C04", "`SELECT b, s, BOOL_OR(b) .. GROUP BY b, s` over Parquet lost the (NULL, NULL) group when its aggregates were NULL too (generic accessor arm did not mark NULL as u64::MAX); memory kept it (thorough tier)"),
 ("PackedJoinKeys proved its bounds from one join side", "C04", "a two-column integer join over Parquet matched (6,0) with (5,4): PackedJoinKeys bounded the second key by the one table that had statistics, the other (written without statistics) held a larger value (thorough tier)"),
 ("probing with a dictionary-encoded string key matched nothing", "C09", "t1 a LEFT JOIN t0 b ON a.k = b.k LEFT JOIN (..) c ON b.s = c.s answered c.* NULL for every row on the single node (1092 rows) while the cluster answered 13104: the first join hands b.s on as a dictionary array and the vectorized probe neither hashed nor compared it (thorough tier)"),
 ("top-N sorted by the wrong column when a qualified sort key", "C09", "SELECT a.k, b.k AS bk .. ORDER BY b.k LIMIT n: the top-N merge query sorted the shards' pages by \"k\" (a.k), so forced-distributed returned other rows than one node; first noticed by a sub-agent from reading plan_topn, then produced by the generator (page sorted by a qualified tail)"),
 ("late cross-process sidecar builder deleted", "C20", "a second process finishing its sidecar build removed the directory another process had just published while readers were opening its files: queries failed with ENOENT"),
]
kf_path = os.path.join(HERE, "known_findings.json")
kf = json.load(open(kf_path))
kf["findings"] = [f for f in kf["findings"] if not f.get("fixed")]
for h, s in commits:
    if not s.startswith("fix:"):
        continue
    hit = [p for p in PROP if p[0] in s]
    if not hit:
        print("unmapped fix commit:", h, s)
        continue
    _, prop, what = hit[0]
    kf["findings"].append({"fixed": True, "property": prop, "commit": h, "what": what, "record": f"fixed: property={prop} {h} {what}"})
json.dump(kf, open(kf_path, "w"), indent=1)
print(len(hooks), "hook commits,", sum(1 for f in kf["findings"] if f.get("fixed")), "fixed records,", sum(1 for f in kf["findings"] if not f.get("fixed")), "open findings")
